"""Proof families: one per function under contract.

A family executes the REAL function (code object compiled from /repo's working tree) on symbolic inputs
for each *kind* (concrete type case of the inputs; everything else symbolic), and states the function's
contract as obligations (`ctx.prove`).  The same contract has a concrete reading (`concrete`) that is used
for (a) replaying counter-models on the real code, (b) the family-level bounded cross-check.
"""
import hashlib
import inspect
import json
import os
import time
import traceback

import z3

from ..sym import core, env
from ..sym.core import explore, discharge, Unsupported

REGISTRY = []


def register(cls):
    REGISTRY.append(cls())
    return cls


def families_for(prop):
    return [f for f in REGISTRY if prop in f.serves]


def source_hash(qualname):
    """hash of the current source text of the function under contract (recorded in evidence)"""
    try:
        modname, path = qualname.split(":")
        import importlib
        obj = importlib.import_module(modname)
        for part in path.split("."):
            obj = inspect.getattr_static(obj, part) if inspect.isclass(obj) else getattr(obj, part)
        while isinstance(obj, (classmethod, staticmethod, property)):
            obj = obj.__func__ if not isinstance(obj, property) else obj.fget
        obj = inspect.unwrap(obj)
        src = inspect.getsource(obj)
        return hashlib.sha256(src.encode()).hexdigest()[:12]
    except Exception as e:
        return "unavailable:" + type(e).__name__


class Family:
    name = ""              # short name, used in obligation names
    qualname = ""          # module:Class.function of the function under contract
    serves = []
    target = "P"           # design target
    timeout_ms = 10000
    max_paths = 400
    assumed = []           # names of assumed (numpy / callee) contracts the proofs rely on

    def kinds(self):
        return ["default"]

    def run(self, ctx, kind):
        raise NotImplementedError

    def concretise(self, kind, model, ghost):
        return None

    def concrete(self, case):
        return None

    def bounded_cases(self, tier, seed):
        return iter(())

    def nontrivial(self, case):
        return True

    def extra_functions(self):
        """other repository functions executed (inlined, not abstracted by a contract) while verifying this one"""
        return []


def model_int(model, term, default=0):
    try:
        v = model.eval(term, model_completion=True)
        if z3.is_int_value(v):
            return v.as_long()
        if z3.is_true(v):
            return 1
        if z3.is_false(v):
            return 0
    except Exception:
        pass
    return default


def run_kind(family, kind, timeout_ms=None, config=None):
    """explore all paths of one kind, discharge all obligations. Returns a JSON-able dict."""
    timeout_ms = timeout_ms or family.timeout_ms
    t0 = time.time()
    out = {"family": family.name, "kind": kind, "obligations": [], "paths": 0, "notes": []}
    with env.symbolic_modules():
        gen = explore(lambda ctx: family.run(ctx, kind), max_paths=family.max_paths)
        results = []
        for pr in gen:
            results.append(pr)
    for pr in results:
        out["paths"] += 1
        path = pr.path
        if pr.kind in ("unsupported", "limit"):
            out["obligations"].append({"name": f"{family.name}/{kind}/path={path}/engine", "status": "undecided",
                                       "reason": f"{pr.kind}: {pr.exc}", "time": 0.0, "kind": "engine"})
            continue
        if pr.kind == "raise" and hasattr(family, "late_lemmas"):
            # the family may supply lemmas (as obligations of their own) needed to show that this exception path is infeasible
            prev = core._CTX
            core._CTX = pr.ctx
            try:
                family.late_lemmas(pr.ctx, kind, pr.exc)
            except Exception as e:
                out["notes"].append(f"late_lemmas failed: {e!r}")
            finally:
                core._CTX = prev
        obs = list(pr.ctx.obligations)
        if pr.kind == "raise":
            # an exception escaped that the family's contract did not account for: the path must be infeasible
            tb = "".join(traceback.format_exception_only(type(pr.exc), pr.exc)).strip()
            where = traceback.extract_tb(pr.exc.__traceback__)[-1]
            # not the code's behaviour but the checker's: solver API errors, exception classes private to the engine (e.g. a value the symbolic numpy cannot
            # take as an array), lookups failing inside the engine, or inside the body of the proof script itself (a script written for another shape of
            # implementation: "cannot state the contract" is undecided, never a refutation)
            script_body = ("vf/proofs" in (where.filename or "") and where.name == "run"
                           and isinstance(pr.exc, (AttributeError, NameError, KeyError, IndexError, TypeError)))
            checker_side = type(pr.exc).__module__.startswith("vf.") or script_body
            if isinstance(pr.exc, z3.Z3Exception) or (
                    isinstance(pr.exc, (AttributeError, NameError, KeyError)) and "vf/sym" in (where.filename or "")):
                out["obligations"].append({"name": f"{family.name}/{kind}/path={path}/engine", "status": "undecided",
                                           "reason": f"engine error: {tb}", "time": 0.0, "kind": "engine"})
                continue
            # after a late lemma has derived False (as an obligation of its own) the path is closed: no need to instantiate every schema again
            closed = any(z3.is_false(h) for h in pr.ctx.hyps)
            ob = core.Obligation(f"no-exception[{type(pr.exc).__name__}]", pr.ctx.hyps, [] if closed else pr.ctx.schemas, [] if closed else pr.ctx.pool,
                                 z3.BoolVal(False), kind="noexc", derivers=() if closed else pr.ctx.derivers,
                                 info={"exception": tb, "at": f"{os.path.basename(where.filename)}:{where.lineno}"})
            ob.checker_side = checker_side          # such a path may still be shown infeasible; if it is not, that is undecided, not a refutation
            obs.append(ob)
        # vacuity guard: the hypotheses under which this path's obligations were proved must be satisfiable
        if obs and pr.kind == "return" and not any(z3.is_false(o.goal) for o in obs):
            last = obs[-1]
            gids = {g_.get_id() for g_ in getattr(last, "guards", [])}
            can = core.Obligation("canary", [h for h in last.hyps if h.get_id() not in gids], last.schemas, last.pool,
                                  z3.BoolVal(False), kind="canary")
            discharge(can, timeout_ms=3000, use_native=False)
            if can.status == "proved":
                out["obligations"].append({"name": f"{family.name}/{kind}/path={path}/canary", "status": "vacuous",
                                           "reason": "the hypotheses of this path are contradictory", "time": can.time,
                                           "kind": "canary"})
            out["canaries"] = out.get("canaries", 0) + 1
        for ob in obs:
            discharge(ob, timeout_ms=timeout_ms)
            rec = {"name": f"{family.name}/{kind}/path={path}/{ob.name}", "status": ob.status, "time": round(ob.time, 4),
                   "solver": ob.solver, "kind": ob.kind, "reason": ob.reason}
            if ob.info:
                rec["info"] = {k: str(v) for k, v in ob.info.items()}
            if ob.status != "proved" and getattr(ob, "checker_side", False):
                rec.update({"name": f"{family.name}/{kind}/path={path}/engine", "status": "undecided", "kind": "engine",
                            "reason": "engine error: the proof script / engine cannot follow this path of the implementation: " + str(ob.info.get("exception"))})
                out["obligations"].append(rec)
                continue
            if ob.status in ("undecided",):
                r2 = try_other_solvers(ob, timeout_ms)
                if r2:
                    rec.update(r2)
            elif ob.status == "proved" and os.environ.get("VERIF_TIER") == "thorough" and not z3.is_false(ob.goal):
                rec["cross_check"] = cross_check(ob)
            if rec["status"].startswith("refuted") and ob.model is not None:
                rec["model"] = str(ob.model)[:1500]
                try:
                    pr.ctx.ghost["_obligation"] = ob.name
                    case = family.concretise(kind, ob.model, pr.ctx.ghost)
                except Exception as e:
                    case = None
                    rec["concretise_error"] = repr(e)
                if case is not None:
                    rec["case"] = case
            out["obligations"].append(rec)
    # replay concretised counter-models on the real code (modules unpatched here)
    for rec in out["obligations"]:
        if "case" in rec:
            try:
                v = family.concrete(rec["case"])
                rec["replay"] = v if v is not None else "not-confirmed"
            except Exception as e:
                rec["replay"] = "replay-error: " + repr(e)
    out["wall_s"] = round(time.time() - t0, 3)
    return out


def cross_check(ob, timeout_s=6):
    """thorough tier: every VC discharged by z3 is handed to cvc5 as SMT-LIB text; a `sat` there is an engine inconsistency"""
    import subprocess
    import tempfile
    # the formula handed to cvc5 is the one z3 refuted: the instantiated VC, or - when z3 needed its own quantifier instantiation - the VC with
    # the schemas as quantified hypotheses (the purely instantiated VC is satisfiable then, by construction)
    txt = core.to_smt2(ob, native="native quantifier" in (ob.reason or ""))
    with tempfile.NamedTemporaryFile("w", suffix=".smt2", delete=False, dir=os.environ.get("VERIF_TMP", "/tmp")) as f:
        f.write(txt)
        path = f.name
    try:
        p = subprocess.run(["/usr/bin/cvc5", f"--tlimit={timeout_s * 1000}", path], capture_output=True, text=True, timeout=timeout_s + 5)
        first = (p.stdout.strip().splitlines() or ["no-answer"])[0]
        return first if first in ("sat", "unsat", "unknown") else "no-answer"
    except Exception:
        return "no-answer"
    finally:
        os.unlink(path)


def try_other_solvers(ob, timeout_ms):
    """z3 said unknown: hand the SMT-LIB text to cvc5 and the system z3 4.8.12"""
    import subprocess
    import tempfile
    txt = core.to_smt2(ob)
    with tempfile.NamedTemporaryFile("w", suffix=".smt2", delete=False, dir=os.environ.get("VERIF_TMP", "/tmp")) as f:
        f.write(txt)
        path = f.name
    try:
        for name, cmd in (("cvc5-1.0.3", ["/usr/bin/cvc5", f"--tlimit={timeout_ms}", path]),
                          ("z3-4.8.12", ["/usr/bin/z3", f"-T:{max(1, timeout_ms // 1000)}", path])):
            try:
                p = subprocess.run(cmd, capture_output=True, text=True, timeout=timeout_ms / 1000 + 5)
            except Exception:
                continue
            first = (p.stdout.strip().splitlines() or [""])[0]
            if first == "unsat":
                return {"status": "proved", "solver": name}
    finally:
        os.unlink(path)
    return None
