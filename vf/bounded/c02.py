"""C02 bounded stand-in: every index expression of the grammar on every small ragged array, against
the list-of-rows oracle (plain Python indexing of a list of lists)."""
import itertools
import numpy as np
from .common import (import_repo, length_vectors, rows_for, slices, dec_index, py_index_rows)

PROPERTY = "C02"
RULE = ("exhaustive: row-length vectors (rows<=R, len<=L) x row selectors (ints in and out of range, slices with "
        "start/stop in {None,-5..5 subset} and step in {None,+-1,+-2,+-3}, int lists with repeats/negatives, all "
        "boolean masks, Ellipsis) x column selectors (absent, ints in/out of range, slices); non-trivial = the array has "
        "an empty row, or a slice has a non-unit step or an out-of-range bound, or an integer index is negative or out of range")
BOUNDS = {"quick": {"max_rows": 3, "max_len": 3, "row_slices": "bounds {None,-4,-1,0,1,2,4} x steps {None,2,-1,-2}",
                    "col_slices": "bounds {None,-4,-2,-1,0,1,3} x steps {None,1,2,3,-1,-2,-3}"},
          "thorough": {"max_rows": 4, "max_len": 4, "row_slices": "full", "col_slices": "full"}}

Q_ROW_BOUNDS = [None, -4, -1, 0, 1, 2, 4]
Q_ROW_STEPS = [None, 2, -1, -2]


def row_selectors(n, tier):
    sel = [{"ellipsis": 1}]
    sel += list(range(-n - 1, n + 1))
    if tier == "quick":
        sel += [{"slice": list(s)} for s in slices(Q_ROW_BOUNDS, Q_ROW_STEPS)]
    else:
        sel += [{"slice": list(s)} for s in slices()]
    for k in range(0, 3):
        for combo in itertools.product(range(-n, n), repeat=k):
            if tier == "quick" and k == 2 and n > 2 and (combo[0] > combo[1] or combo[0] == -n):
                continue
            sel.append({"list": list(combo)})
    if n <= 4:
        for m in itertools.product([False, True], repeat=n):
            sel.append({"mask": list(m)})
    if n > 0:
        sel.append({"list": [n]})          # out of range in a list
        sel.append({"list": [-n - 1]})
    if n >= 3:
        # longer index lists: first and last row in place with the interior permuted / repeated, a full reversal, repeats
        sel.append({"list": [0] + list(range(n - 2, 0, -1)) + [n - 1]})
        sel.append({"list": [0] + [-1] * n})
        sel.append({"list": list(range(n - 1, -1, -1))})
        sel.append({"list": [1, 0, n - 1]})
    return sel


Q_COL_BOUNDS = [None, -4, -2, -1, 0, 1, 3]


def col_selectors(maxlen, tier):
    sel = [None]
    sel += list(range(-maxlen - 2, maxlen + 2))
    sel += [{"slice": list(s)} for s in (slices() if tier != "quick" else slices(Q_COL_BOUNDS))]
    sel.append({"ellipsis": 1})
    return sel


def cases(tier, seed):
    b = BOUNDS[tier]
    for lengths in length_vectors(b["max_rows"], b["max_len"]):
        n = len(lengths)
        rs = row_selectors(n, tier)
        cs = col_selectors(b["max_len"], tier)
        for r in rs:
            # column selectors only with a reduced row-selector set in the quick tier, to keep it fast
            for c in cs:
                if c is not None and tier == "quick" and isinstance(r, dict) and "slice" in r and r["slice"] not in (
                        [None, None, None], [1, None, None], [None, None, -1], [None, None, 2], [0, 2, None], [None, -1, None]):
                    continue
                yield {"lengths": lengths, "row": r, "col": c}
    if tier == "thorough":
        rng = np.random.default_rng(seed)
        for _ in range(20000):
            n = int(rng.integers(0, 7))
            lengths = [int(x) for x in rng.integers(0, 7, size=n)]

            def rb():
                return None if rng.random() < 0.3 else int(rng.integers(-9, 10))

            def rstep():
                return None if rng.random() < 0.3 else int(rng.choice([1, 2, 3, 4, -1, -2, -3, -4]))
            kind = rng.integers(0, 4)
            if kind == 0:
                r = int(rng.integers(-n - 1, n + 1))
            elif kind == 1:
                r = {"slice": [rb(), rb(), rstep()]}
            elif kind == 2:
                r = {"list": [int(x) for x in rng.integers(-n, max(n, 1), size=int(rng.integers(0, 5)))]} if n else {"list": []}
            else:
                r = {"mask": [bool(x) for x in rng.integers(0, 2, size=n)]}
            ck = rng.integers(0, 3)
            c = None if ck == 0 else (int(rng.integers(-8, 8)) if ck == 1 else {"slice": [rb(), rb(), rstep()]})
            yield {"lengths": lengths, "row": r, "col": c}


def nontrivial(case):
    if 0 in case["lengths"]:
        return True
    for s in (case["row"], case["col"]):
        if isinstance(s, dict) and "slice" in s:
            a, b, st = s["slice"]
            if st not in (None, 1) or any(x is not None and abs(x) > 3 for x in (a, b)):
                return True
        if isinstance(s, int) and s < 0:
            return True
    return False


def oracle(rows, rsel, csel):
    """-> ('ragged', list of rows) | ('flat', list) | ('scalar', v) ; raises IndexError when an addressed integer
    row / column does not exist"""
    kind, sub = py_index_rows(rows, rsel)
    if csel is None:
        return ("ragged", sub) if kind == "rows" else ("flat", sub)
    if csel is Ellipsis:
        csel = slice(None)
    if kind == "row":
        if isinstance(csel, slice):
            return "flat", sub[csel]
        return "scalar", sub[csel]
    if isinstance(csel, slice):
        return "ragged", [r[csel] for r in sub]
    return "flat", [r[csel] for r in sub]        # IndexError if the column does not exist in an addressed row


def observe(res):
    from npstructures import RaggedArray
    if isinstance(res, RaggedArray):
        return "ragged", res.tolist()
    a = np.asarray(res)
    if a.ndim == 0:
        return "scalar", a.item()
    return "flat", a.tolist()


def check(case):
    import_repo()
    from npstructures import RaggedArray
    lengths = case["lengths"]
    rows = rows_for(lengths, base=10)
    flat = [v for r in rows for v in r]
    ra = RaggedArray(np.array(flat, dtype=np.int64), lengths) if True else None
    rsel, csel = dec_index(case["row"]), dec_index(case["col"])
    try:
        exp = oracle(rows, rsel, csel)
        exp_err = None
    except IndexError as e:
        exp, exp_err = None, e
    idx = rsel if csel is None else (rsel, csel)
    if case.get("via") == "ellipsis_cols":
        idx = (Ellipsis, csel)
    try:
        got = observe(ra[idx])
        got_err = None
    except Exception as e:
        got, got_err = None, e
    if exp_err is not None:
        if got_err is None:
            return {"msg": f"index {case['row']},{case['col']} on rows {rows} addresses a non-existing row/column "
                           f"but returned {got}", "sig": "not-refused:" + _kind_sig(case)}
        return None
    if got_err is not None:
        return {"msg": f"index {case['row']},{case['col']} on rows {rows}: expected {exp}, raised "
                       f"{type(got_err).__name__}: {got_err}", "sig": "raised:" + type(got_err).__name__ + ":" + _kind_sig(case)}
    if exp[0] == "ragged" and len(exp[1]) == 0 and got[0] in ("ragged", "flat") and len(got[1]) == 0:
        return None
    if got != exp:
        return {"msg": f"index {case['row']},{case['col']} on rows {rows}: expected {exp}, got {got}",
                "sig": "wrong:" + _kind_sig(case)}
    return None


def _sel_sig(s):
    if s is None:
        return "none"
    if isinstance(s, dict):
        if "slice" in s:
            st = s["slice"][2]
            return "slice" + ("-" if st is not None and st < 0 else "+")
        return next(iter(s))
    return "int" + ("-" if s < 0 else "+")


def _kind_sig(case):
    return _sel_sig(case["row"]) + "," + _sel_sig(case["col"])
