"""C17 bounded stand-in: RunLength2dArray / RunLengthRaggedArray against numpy on the dense matrix /
per-row numpy on the list of rows.

Variants (field "v" of a case):
    m2d   RunLength2dArray.from_array(matrix)                      "matrix variant"  (_row_len set)
    mrag  RunLengthRaggedArray.from_array(matrix)                  "ragged variant" built from a matrix
    rag   RunLengthRaggedArray.from_ragged_array(RaggedArray)      "ragged variant"
    iv    RunLength2dArray.from_intervals(starts, ends, row_len)   matrix variant holding an indicator matrix

What is demanded on which variant (read off the statement, nothing more):
    every variant    decode (to_array), len, shape, size; rows [int | slice | list | mask]; single element [i, j];
                     row-wise sum / any / all; column-wise sum; unary ufunc; ufunc with scalar / (n_rows,1) column on
                     either side; concatenation
    ragged only      column [rows, j]; column range [rows, a:b:s] (non-empty in every selected row; negative step only
                     with bounds inside every selected row); row-wise max / mean / argmax, column-wise mean / counts,
                     ravel  (RunLength2dArray does not have these methods at all: not demanded there);
                     np.sum / np.mean / np.max / np.concatenate dispatch
    matrix only      column-wise any
"""
import itertools
import json
import math
import numpy as np
from .common import import_repo, dec_index, py_index_rows

PROPERTY = "C17"
RULE = ("exhaustive: (a) every matrix with r<=R rows x c<=C columns over a 2- or 3-value alphabet (= every run pattern "
        "per row), every ragged array with <=R rows of length 1..L over the same alphabets, built through "
        "RunLength2dArray.from_array (m2d), RunLengthRaggedArray.from_array (mrag), RunLengthRaggedArray.from_ragged_array "
        "(rag); dtypes int64 mainly, int8/uint8/float64/bool on a reduced set; (b) every interval list (n<=3 intervals, "
        "0<=start<end<=row_len<=5) through RunLength2dArray.from_intervals (iv); x one operation per case: decode+len+"
        "shape+size; row selectors (all valid ints, slices, int lists, masks); every element [i,j] incl. negative; on the "
        "ragged variants every column j valid in every selected row and every column slice a:b:s (bounds in {None,-5..5}, "
        "|step|<=3) that is non-empty in every selected row and, for s<0, has its bounds inside every selected row; row "
        "reductions sum/any/all (+max/mean/argmax on ragged); column sum (+mean, col_counts on ragged; any on matrix); "
        "ravel; np.concatenate of two; unary ufuncs; non-commutative ufuncs with scalar / (n_rows,1) column on the left and "
        "on the right. For selection the data is enumerated by run structure (every composition of every row length) with "
        "distinct values per run. non-trivial = at least two rows and some row with at least two runs (iv: an interval "
        "strictly inside the row)")
BOUNDS = {
    "quick": {
        "whole-array ops (decode/len/shape/size, column reductions)":
            "matrices r<=3 x c<=4 alphabet 2, r<=2 x c<=3 and 1x4 alphabet 3; ragged <=3 rows len<=3 alphabet 2, <=2 rows "
            "len<=4 alphabet 2, <=2 rows len<=3 alphabet 3 (mrag, mean, np-routes on a sub-set)",
        "row reductions": "matrices <=3x3 / 2x4 alphabet 2, <=2x2 / 1x4 alphabet 3; ragged 1 row len<=4 alphabet 3, 2 rows "
                          "len<=2 alphabet 3, 2 rows len<=3 / 3 rows len<=2 alphabet 2",
        "intervals": "every list of n<=3 intervals 0<=start<end<=row_len<=5 (n=3 only for row_len<=4)",
        "row selectors": "every run composition: matrices up to 1x4, 2x3, 3x2; ragged 1 row len<=4, 2 rows len<=3, 3 rows "
                         "len<=2; all valid ints, 36 slices, int lists (len<=1 all, some longer), int array, all masks",
        "elements": "every (i, j) incl. negative on the same data",
        "columns": "ragged variants: same data + 3 rows len<=3; every j valid in every selected row",
        "col_slices": "ragged variants: bounds {None,-5..5} x steps {None,1,2,3,-1,-2,-3} on single rows len<=4; bounds "
                      "{None,-4..4} on 2 rows len<=3 and 3 rows len<=2 (every run composition); reduced bounds with other "
                      "row selectors; only slices of the stated kind",
        "ufuncs": "<=4 cells or 3x2 / 3 rows len<=2 run compositions; negative/absolute(/logical_not/invert); subtract/less/"
                  "multiply/add with python and numpy scalars and (n_rows,1) columns on both sides; operator route",
        "concat": "pairs of arrays with <=2 rows, len<=2, alphabet 2",
        "dtypes": ["int64", "int8", "uint8", "float64", "bool"]},
    "thorough": {
        "whole-array ops": "quick + matrices 2x4, 3x1, 3x2 alphabet 3; ragged 3 rows len<=4 alphabet 2, 2 rows len<=4 "
                           "alphabet 3; column sum on 3 rows len<=3 alphabet 3",
        "intervals": "n<=3, row_len<=5",
        "row selectors": "quick data with 196 slices and all int lists of length<=2; + 2x4, 3x3 matrices and 2 rows "
                         "len<=4, 3 rows len<=3 ragged",
        "col_slices": "bounds {None,-5..5} x steps {None,+-1,+-2,+-3,+-4} on <=2 rows len<=4 and 3 rows len<=3 (every run "
                      "composition); 3 rows len<=4 with bounds {None,-4,-1,0,2,4} x steps {None,-1}",
        "random": "40000 cases: <=5 rows, len<=8, alphabet 3, random dtype / operation / selector / operand",
        "dtypes": ["int64", "int8", "uint8", "float64", "bool"]},
}

TABLE = {"int64": [0, -1, 2], "int8": [0, -1, 2], "uint8": [0, 255, 2], "float64": [0.0, -0.5, 1.5], "bool": [False, True]}
KIND = {"int64": "int", "int8": "int", "uint8": "uint", "float64": "float", "bool": "bool"}
OTHER_DTYPES = ["int8", "uint8", "float64", "bool"]
RAGGED = ("mrag", "rag")
VCLASS = {"m2d": "matrix", "mrag": "ragged", "rag": "ragged", "iv": "intervals"}

COL_BOUNDS = [None, -5, -4, -3, -2, -1, 0, 1, 2, 3, 4, 5]
COL_STEPS_Q = [None, 1, 2, 3, -1, -2, -3]
COL_STEPS_T = [None, 1, 2, 3, 4, -1, -2, -3, -4]


# ---------------------------------------------------------------------------------------------
# data enumeration

def _vals(codes, dtype):
    t = TABLE[dtype]
    return [t[c] for c in codes]


def matrices(r, c, k):
    for flat in itertools.product(range(k), repeat=r * c):
        yield [list(flat[i * c:(i + 1) * c]) for i in range(r)]


def code_rows(max_len, k, min_len=1):
    for l in range(min_len, max_len + 1):
        for row in itertools.product(range(k), repeat=l):
            yield list(row)


def raggeds(n, max_len, k):
    rows = list(code_rows(max_len, k))
    for combo in itertools.product(rows, repeat=n):
        yield [list(r) for r in combo]


def comps(n):
    if n == 0:
        yield []
        return
    for first in range(1, n + 1):
        for rest in comps(n - first):
            yield [first] + rest


def comp_row(comp, off, k=3):
    out = []
    for i, l in enumerate(comp):
        out += [(off + i) % k] * l
    return out


def comp_rows(max_len, min_len=1):
    return [c for l in range(min_len, max_len + 1) for c in comps(l)]


def comp_raggeds(n, max_len, k=3):
    """every combination of run structures (compositions) for n rows of length 1..max_len; run i of row r has code (r+i)%k"""
    cr = comp_rows(max_len)
    for combo in itertools.product(cr, repeat=n):
        yield [comp_row(c, r, k) for r, c in enumerate(combo)]


def comp_matrices(r, c, k=3):
    cr = list(comps(c))
    for combo in itertools.product(cr, repeat=r):
        yield [comp_row(cc, i, k) for i, cc in enumerate(combo)]


def typed(code_rows_, dtype):
    return [_vals(r, dtype) for r in code_rows_]


def mk(v, dtype, rows, op, **kw):
    d = {"v": v, "dtype": dtype, "rows": typed(rows, dtype), "op": op}
    d.update(kw)
    return d


def interval_lists(max_n, max_len, min_n=1):
    for L in range(1, max_len + 1):
        ivs = [(s, e) for s in range(L) for e in range(s + 1, L + 1)]
        for n in range(min_n, max_n + 1):
            for combo in itertools.product(ivs, repeat=n):
                yield L, [s for s, _ in combo], [e for _, e in combo]


def mkiv(L, starts, ends, op, value=None, **kw):
    d = {"v": "iv", "row_len": L, "starts": starts, "ends": ends, "value": value, "op": op}
    d.update(kw)
    return d


# ---------------------------------------------------------------------------------------------
# selectors

def row_selectors(n, level):
    """valid row selectors for n rows. level 0: small, 1: quick, 2: thorough"""
    sel = list(range(-n, n))
    if level == 0:
        sl = [(None, None, None), (None, None, -1), (1, None, None), (None, None, 2), (0, 1, None), (None, -1, None)]
    elif level == 1:
        sl = [(a, b, s) for a in (None, -1, 1, 2) for b in (None, -1, 1, 4) for s in (None, -1)]
        sl += [(None, None, 2), (None, None, -2), (1, None, 2), (0, 0, None)]
    else:
        sl = [(a, b, s) for a in (None, -4, -1, 0, 1, 2, 4) for b in (None, -4, -1, 0, 1, 2, 4)
              for s in (None, 2, -1, -2)]
    sel += [{"slice": list(s)} for s in sl]
    if level == 0:
        lists = [[0], [n - 1, 0], [0, 0], [-1]]
    elif level == 1:
        lists = [list(c) for k in range(0, 2) for c in itertools.product(range(-n, n), repeat=k)]
        lists += [[0, 0], [n - 1, 0], [-1, 1 % n], [0, -1, 0], [(i + 2) % n for i in range(n)] + [0]]
    else:
        lists = [list(c) for k in range(0, 3) for c in itertools.product(range(-n, n), repeat=k)]
        lists += [[(i + 2) % n for i in range(n)] + [0]]
    seen = []
    for l in lists:
        if l not in seen:
            seen.append(l)
    sel += [{"list": l} for l in seen]
    sel += [{"array": [n - 1, 0]}]
    for m in itertools.product([False, True], repeat=n):
        sel.append({"mask": list(m)})
    return sel


def multi_row_selectors(n, level):
    """selectors that keep the row axis (no plain ints) and select at least one row"""
    out = []
    for s in row_selectors(n, level):
        if isinstance(s, int):
            continue
        out.append(s)
    return out


def col_slice_ok(sub, a, b, s):
    """is the column range a:b:s of the stated kind for the selected rows `sub`?"""
    if not sub:
        return False
    sl = slice(a, b, s)
    if any(len(r[sl]) == 0 for r in sub):
        return False
    if s is not None and s < 0:
        for x in (a, b):
            if x is not None and not all(-len(r) <= x < len(r) for r in sub):
                return False
    return True


def select_rows(rows, rsel):
    kind, sub = py_index_rows(rows, rsel)
    return kind, (sub if kind == "rows" else [sub])


# ---------------------------------------------------------------------------------------------
# ufunc configurations

def ufunc_configs(dtype, n):
    kind = KIND[dtype]
    out = []
    if kind == "bool":
        unary = ["logical_not", "invert"]
        binary = [("less", True), ("less", False), ("logical_xor", True), ("bitwise_or", False)]
        col = [[bool((i + 1) % 2)] for i in range(n)]
        colops = ["less", "logical_xor"]
        cdt = "bool"
    elif kind == "float":
        unary = ["negative", "absolute"]
        binary = [("subtract", 0.5), ("subtract", 2), ("less", 0.25), ("multiply", 0.0), ("add", 1.0)]
        col = [[0.5 * (i + 1)] for i in range(n)]
        colops = ["subtract", "less", "add"]
        cdt = "float64"
    else:
        unary = ["negative", "absolute"]
        binary = [("subtract", 2), ("less", 1), ("multiply", 0), ("add", 1), ("subtract", 0.5)]
        col = [[i + 1] for i in range(n)]
        colops = ["subtract", "less", "add"]
        cdt = "int64"
    for u in unary:
        out.append({"ufunc": u, "operand": None})
    for u, s in binary:
        for side in ("right", "left"):
            out.append({"ufunc": u, "operand": {"scalar": s, "side": side}})
    if kind != "bool":
        for side in ("right", "left"):
            out.append({"ufunc": "subtract", "operand": {"scalar": 2, "side": side}, "via": "operator"})
            out.append({"ufunc": "subtract", "operand": {"scalar": 2, "sctype": dtype, "side": side}})   # numpy scalar
    for u in colops:
        for side in ("right", "left"):
            out.append({"ufunc": u, "operand": {"col": col, "coldtype": cdt, "side": side}})
    if kind != "bool":
        for side in ("right", "left"):
            out.append({"ufunc": "subtract", "operand": {"col": col, "coldtype": cdt, "side": side}, "via": "operator"})
    return out


# ---------------------------------------------------------------------------------------------
# case enumeration

def _variants_for(rows):
    equal = len({len(r) for r in rows}) == 1
    return ("m2d", "mrag", "rag") if equal else ("rag",)


def _data_full(tier):
    """(variant, code rows) for whole-array operations, int64"""
    seen = set()

    def emit(v, rows):
        key = (v, tuple(tuple(r) for r in rows))
        if key in seen:
            return None
        seen.add(key)
        return (v, rows)
    for r in (1, 2, 3):
        for c in (1, 2, 3, 4):
            for m in matrices(r, c, 2):
                for v in ("m2d", "mrag"):
                    x = emit(v, m)
                    if x:
                        yield x
    k3 = [(r, c) for r in (1, 2) for c in (1, 2, 3)] + [(1, 4)]
    if tier == "thorough":
        k3 += [(2, 4), (3, 1), (3, 2)]
    for r, c in k3:
        for m in matrices(r, c, 3):
            for v in ("m2d", "mrag"):
                x = emit(v, m)
                if x:
                    yield x
    specs = [(1, 4, 2), (2, 4, 2), (3, 3, 2), (1, 4, 3), (2, 3, 3)]
    if tier == "thorough":
        specs += [(3, 4, 2), (2, 4, 3)]
    for n, L, k in specs:
        for rg in raggeds(n, L, k):
            x = emit("rag", rg)
            if x:
                yield x


def _data_med():
    seen = set()

    def emit(v, rows):
        key = (v, tuple(tuple(r) for r in rows))
        if key in seen:
            return None
        seen.add(key)
        return (v, rows)
    for r, c, k in [(1, 4, 3), (1, 3, 3), (1, 2, 3), (1, 1, 3), (2, 1, 3), (2, 2, 3), (2, 3, 2), (2, 4, 2), (3, 1, 2), (3, 2, 2),
                    (3, 3, 2)]:
        for m in matrices(r, c, k):
            for v in ("m2d", "mrag"):
                x = emit(v, m)
                if x:
                    yield x
    for n, L, k in [(1, 4, 3), (2, 2, 3), (2, 3, 2), (3, 2, 2)]:
        for rg in raggeds(n, L, k):
            x = emit("rag", rg)
            if x:
                yield x


def _data_small():
    """small data set used for dtype variants / ufuncs / concatenation"""
    seen = set()
    out = []

    def emit(v, rows):
        key = (v, tuple(tuple(r) for r in rows))
        if key not in seen:
            seen.add(key)
            out.append((v, rows))
    for r, c in [(1, 1), (1, 2), (1, 3), (2, 1), (2, 2), (3, 1), (3, 2)]:
        for m in matrices(r, c, 2):
            emit("m2d", m)
            emit("mrag", m)
    for m in comp_matrices(2, 3, 2):
        emit("m2d", m)
        emit("mrag", m)
    for n, L in [(1, 3), (2, 2), (3, 2)]:
        for rg in raggeds(n, L, 2):
            emit("rag", rg)
    for rg in comp_raggeds(2, 3, 2):
        emit("rag", rg)
    return out


def _dedup(data):
    seen, res = set(), []
    for v, rows in data:
        key = (v, tuple(tuple(r) for r in rows))
        if key not in seen:
            seen.add(key)
            res.append((v, rows))
    return res


def _data_select(tier):
    """data enumerated by run structure, for selection: (variant, code rows)"""
    out = []
    for r, c in [(1, 1), (1, 2), (1, 3), (1, 4), (2, 1), (2, 2), (2, 3), (3, 1), (3, 2)] + ([(2, 4), (3, 3)] if tier == "thorough" else []):
        for m in comp_matrices(r, c):
            out.append(("m2d", m))
            out.append(("mrag", m))
    for n, L in [(1, 4), (2, 3), (3, 2)] + ([(2, 4), (3, 3)] if tier == "thorough" else []):
        for rg in comp_raggeds(n, L):
            out.append(("rag", rg))
    seen, res = set(), []
    for v, rows in out:
        key = (v, tuple(tuple(r) for r in rows))
        if key not in seen:
            seen.add(key)
            res.append((v, rows))
    return res


def _red_cases(v, dtype, rows):
    names = ["sum", "any", "all"] + (["max", "mean", "argmax"] if v in RAGGED else [])
    for nm in names:
        yield mk(v, dtype, rows, "rowred", name=nm, via="method")
    npn = ["sum", "mean", "max"] if v in RAGGED else ["sum", "any", "all"]
    for nm in npn:
        yield mk(v, dtype, rows, "rowred", name=nm, via="np")


def _colred_cases(v, dtype, rows, np_route=True):
    if v in RAGGED:
        for nm in ("sum", "mean", "counts"):
            yield mk(v, dtype, rows, "colred", name=nm, via="method")
        if np_route:
            for nm in ("sum", "mean"):
                yield mk(v, dtype, rows, "colred", name=nm, via="np")
    else:
        for nm in ("sum", "any"):
            yield mk(v, dtype, rows, "colred", name=nm, via="method")
            if np_route:
                yield mk(v, dtype, rows, "colred", name=nm, via="np")


def _colslice_cases(v, dtype, rows, rsel, steps, bounds=COL_BOUNDS):
    trows = rows
    _, sub = select_rows(trows, dec_index(rsel))
    if not sub:
        return
    for a in bounds:
        for b in bounds:
            for s in steps:
                if col_slice_ok(sub, a, b, s):
                    yield mk(v, dtype, rows, "colslice", row=rsel, col={"slice": [a, b, s]})


def cases(tier, seed):
    thorough = tier == "thorough"
    small = _data_small()
    tiny = [(v, rows) for v, rows in small if sum(len(r) for r in rows) <= 4]

    # 1. decode / len / shape / size
    med_keys = {(v, json.dumps(rows)) for v, rows in _data_med()}
    for v, rows in _data_full(tier):
        if v == "mrag" and not thorough and (v, json.dumps(rows)) not in med_keys:
            continue
        yield mk(v, "int64", rows, "basic")
    for dtype in OTHER_DTYPES:
        for v, rows in small:
            yield mk(v, dtype, rows, "basic")

    # 2. from_intervals
    for L, st, en in interval_lists(3, 5):
        if not thorough and L == 5 and len(st) == 3:
            continue
        yield mkiv(L, st, en, "basic")
    for L, st, en in interval_lists(2, 4):
        yield mkiv(L, st, en, "basic", value=True)
    for L, st, en in interval_lists(2 if not thorough else 3, 3 if not thorough else 4):
        n = len(st)
        if n == 3 and L == 4:
            continue
        for i in range(-n, n):
            for j in range(-L, L):
                yield mkiv(L, st, en, "elem", row=i, col=j)
        for rs in row_selectors(n, 0 if not thorough or n == 3 else 1):
            yield mkiv(L, st, en, "rows", row=rs)
    for L, st, en in interval_lists(3, 4):
        if not thorough and L == 4 and len(st) == 3:
            continue
        for nm in ("sum", "any", "all"):
            yield mkiv(L, st, en, "rowred", name=nm, via="method")
        for nm in ("sum", "any"):
            yield mkiv(L, st, en, "colred", name=nm, via="method")
    for L, st, en in interval_lists(2, 3):
        for cfg in ufunc_configs("int64", len(st)):
            yield mkiv(L, st, en, "ufunc", **cfg)

    # 3. row reductions
    small_keys = {(v, json.dumps(rows)) for v, rows in small}
    for v, rows in (_data_full("quick") if thorough else _data_med()):
        in_small = (v, json.dumps(rows)) in small_keys
        in_med = (v, json.dumps(rows)) in med_keys
        if v == "mrag" and not thorough and not in_small:
            continue            # same code path as rag
        for c in _red_cases(v, "int64", rows):
            if c["via"] == "np" and not (in_small or (thorough and in_med)):
                continue
            yield c
    for dtype in OTHER_DTYPES:
        for v, rows in (small if thorough else tiny):
            for c in _red_cases(v, dtype, rows):
                yield c

    # 4. column reductions
    qfull_keys = {(v, json.dumps(rows)) for v, rows in _data_full("quick")} if thorough else set()
    for v, rows in _data_full(tier):
        in_med = (v, json.dumps(rows)) in med_keys
        if v == "mrag" and not thorough and not in_med:
            continue                # same code path as rag
        in_qfull = not thorough or (v, json.dumps(rows)) in qfull_keys
        for c in _colred_cases(v, "int64", rows, np_route=(thorough and in_med) or (v, json.dumps(rows)) in small_keys):
            if c["name"] == "counts" and any(x != 0 for r in rows for x in r):
                continue            # counts depend on the row lengths only: one value pattern per shape
            if c["name"] == "mean" and not (in_med or (thorough and in_qfull)):
                continue
            if v == "m2d" and c["name"] == "sum" and not thorough and not in_med and len(rows) < 3:
                continue
            yield c
    if thorough:
        for rg in raggeds(3, 3, 3):
            yield mk("rag", "int64", rg, "colred", name="sum", via="method")
    for dtype in OTHER_DTYPES:
        for v, rows in small:
            if not thorough and (sum(len(r) for r in rows) > 6 or len(rows) == 1):
                continue
            for c in _colred_cases(v, dtype, rows, np_route=thorough):
                yield c

    # 5. ravel
    for v, rows in _data_med():
        if v in RAGGED:
            yield mk(v, "int64", rows, "ravel")
    for dtype in OTHER_DTYPES:
        for v, rows in small:
            if v in RAGGED:
                yield mk(v, dtype, rows, "ravel")

    # 6. concatenation of two (ragged variants; matrix variants of equal width)
    cc = [(v, rows) for v, rows in small if len(rows) <= 2 and max(len(r) for r in rows) <= (3 if thorough else 2)]
    if not thorough:
        cc = [(v, rows) for v, rows in cc if v != "mrag" or len(rows) == 1]
    for v1, r1 in cc:
        for v2, r2 in cc:
            if (v1 in RAGGED) != (v2 in RAGGED):
                continue
            if v1 == "m2d" and len(r1[0]) != len(r2[0]):
                continue
            yield mk(v1, "int64", r1, "concat", v2=v2, rows2=typed(r2, "int64"))
    for v1, r1 in cc[::7]:
        for v2, r2 in cc[::5]:
            if v1 in RAGGED and v2 in RAGGED:
                for dtype in OTHER_DTYPES:
                    yield mk(v1, dtype, r1, "concat", v2=v2, rows2=typed(r2, dtype))
                yield mk(v1, "int64", r1, "concat", v2=v2, rows2=typed(r2, "int64"), v3=v1, rows3=typed(r1, "int64"))

    # 7. ufuncs
    if thorough:
        uf_data = small
    else:
        uf_data = [(v, rows) for v, rows in small if len(rows) * max(len(r) for r in rows) <= 4]
        for m in comp_matrices(3, 2, 2):
            uf_data += [("m2d", m), ("mrag", m)]
        uf_data += [("rag", rg) for rg in comp_raggeds(3, 2, 2)]
        uf_data = _dedup(uf_data)
    for dtype in ["int64"] + OTHER_DTYPES:
        for v, rows in uf_data:
            if dtype != "int64" and not thorough and sum(len(r) for r in rows) > 3:
                continue
            for cfg in ufunc_configs(dtype, len(rows)):
                yield mk(v, dtype, rows, "ufunc", **cfg)

    # 8. row selection, single elements (data enumerated by run structure)
    sel_data = _data_select(tier)
    qsel_keys = {(v, json.dumps(rows)) for v, rows in _data_select("quick")}
    for v, rows in sel_data:
        n = len(rows)
        for rs in row_selectors(n, 2 if thorough and (v, json.dumps(rows)) in qsel_keys else 1):
            yield mk(v, "int64", rows, "rows", row=rs)
        for i in range(-n, n):
            for j in range(-len(rows[i]), len(rows[i])):
                yield mk(v, "int64", rows, "elem", row=i, col=j)
    for v, rows in sel_data:
        n = len(rows)
        if n == 1 and len(rows[0]) > 2:
            continue
        for rs in row_selectors(n, 0):
            yield mk(v, "int64", rows, "rows", row={"tuple": [rs]})
            if v in RAGGED and not (isinstance(rs, dict) and "mask" in rs and not any(rs["mask"])):
                yield mk(v, "int64", rows, "colslice", row=rs, col={"ellipsis": 1})
    for dtype in OTHER_DTYPES:
        k = 2 if dtype == "bool" else 3
        for v, rows in sel_data:
            n = len(rows)
            if n != 2:
                continue
            rows = [[c % k for c in r] for r in rows]
            for rs in row_selectors(n, 0):
                yield mk(v, dtype, rows, "rows", row=rs)
            for i in (0, -1):
                for j in range(-len(rows[i]), len(rows[i])):
                    yield mk(v, dtype, rows, "elem", row=i, col=j)

    # 9. column (integer) on the ragged variants
    for v, rows in sel_data:
        if v not in RAGGED:
            continue
        n = len(rows)
        for rs in multi_row_selectors(n, 1 if thorough and (v, json.dumps(rows)) in qsel_keys else 0) + [{"ellipsis": 1}]:
            _, sub = select_rows(rows, dec_index(rs))
            if not sub:
                continue
            ml = min(len(r) for r in sub)
            for j in range(-ml, ml):
                yield mk(v, "int64", rows, "col", row=rs, col=j)
    if not thorough:
        for rg in comp_raggeds(3, 3):
            for rs in ({"slice": [None, None, None]},):
                _, sub = select_rows(rg, dec_index(rs))
                ml = min(len(r) for r in sub)
                for j in range(-ml, ml):
                    yield mk("rag", "int64", rg, "col", row=rs, col=j)

    # 10. column ranges on the ragged variants
    steps = COL_STEPS_T if thorough else COL_STEPS_Q
    full = {"slice": [None, None, None]}
    if thorough:
        main = [("rag", rg) for n in (1, 2) for rg in comp_raggeds(n, 4)] + [("rag", rg) for rg in comp_raggeds(3, 3)]
        m3 = {json.dumps(rg) for _, rg in main}
        for rg in comp_raggeds(3, 4):
            if json.dumps(rg) not in m3:
                for c in _colslice_cases("rag", "int64", rg, full, [None, -1], [None, -4, -1, 0, 2, 4]):
                    yield c
    else:
        main = [("rag", rg) for rg in comp_raggeds(1, 4)] + [("rag", rg) for rg in comp_raggeds(2, 3)] + \
               [("rag", rg) for rg in comp_raggeds(3, 2)]
    for v, rows in main:
        bnds = COL_BOUNDS if thorough or len(rows) == 1 else COL_BOUNDS[1:-1]
        for c in _colslice_cases(v, "int64", rows, full, steps, bnds):
            yield c
    reduced_bounds = [None, -3, -1, 0, 1, 2, 4]
    for v, rows in sel_data:
        if v not in RAGGED:
            continue
        n = len(rows)
        if v == "mrag":
            for c in _colslice_cases(v, "int64", rows, full, COL_STEPS_Q, COL_BOUNDS[1:-1] if thorough else reduced_bounds):
                yield c
        if thorough:
            if n == 3 and max(len(r) for r in rows) > 2:
                continue
            others = [0, -1, {"slice": [None, None, -1]}, {"list": [n - 1, 0]}, {"mask": [True, False, True][:n]},
                      {"mask": [False, True, True][:n]}, {"ellipsis": 1}]
            osteps, obounds = [None, 2, -1], [None, -3, -1, 0, 1, 2]
        else:
            if n == 1 and len(rows[0]) < 3:
                continue
            others = [-1, {"slice": [None, None, -1]}, {"list": [n - 1, 0]}, {"mask": [True, False, True][:n]}, {"ellipsis": 1}]
            osteps, obounds = [None, -2], [None, -1, 1, 2]
        for rs in others:
            if isinstance(rs, dict) and "mask" in rs and not any(rs["mask"]):
                continue
            for c in _colslice_cases(v, "int64", rows, rs, osteps, obounds):
                yield c
    for dtype in OTHER_DTYPES:
        k = 2 if dtype == "bool" else 3
        for rg in comp_raggeds(2, 3 if thorough else 2, k):
            for c in _colslice_cases("rag", dtype, rg, full, [None, 2, -1], reduced_bounds):
                yield c

    # 11. random part
    if thorough:
        rng = np.random.default_rng(seed)
        for _ in range(40000):
            c = _random_case(rng)
            if c is not None:
                yield c


def _random_case(rng):
    dtype = str(rng.choice(["int64", "int64", "int64", "int8", "uint8", "float64", "bool"]))
    k = 2 if dtype == "bool" else 3
    n = int(rng.integers(1, 6))
    if rng.random() < 0.4:
        c = int(rng.integers(1, 9))
        lengths = [c] * n
    else:
        lengths = [int(x) for x in rng.integers(1, 9, size=n)]
    rows = []
    for l in lengths:
        row, cur = [], int(rng.integers(0, k))
        for _ in range(l):
            if rng.random() < 0.4:
                cur = int(rng.integers(0, k))
            row.append(cur)
        rows.append(row)
    v = str(rng.choice(_variants_for(rows)))

    def rsel(multi=False):
        kind = int(rng.integers(0 if not multi else 1, 4))
        if kind == 0:
            return int(rng.integers(-n, n))
        if kind == 1:
            def b():
                return None if rng.random() < 0.35 else int(rng.integers(-n - 1, n + 2))
            return {"slice": [b(), b(), None if rng.random() < 0.4 else int(rng.choice([1, 2, 3, -1, -2]))]}
        if kind == 2:
            return {"list": [int(x) for x in rng.integers(-n, n, size=int(rng.integers(0, 5)))]}
        return {"mask": [bool(x) for x in rng.integers(0, 2, size=n)]}
    op = str(rng.choice(["basic", "rows", "elem", "col", "colslice", "colslice", "colslice", "rowred", "colred", "ravel",
                         "concat", "ufunc"]))
    if op == "basic":
        return mk(v, dtype, rows, op)
    if op == "rows":
        return mk(v, dtype, rows, op, row=rsel())
    if op == "elem":
        i = int(rng.integers(-n, n))
        return mk(v, dtype, rows, op, row=i, col=int(rng.integers(-lengths[i], lengths[i])))
    if op in ("col", "colslice"):
        if v == "m2d":
            v = "mrag"
        rs = rsel(multi=(op == "col"))
        _, sub = select_rows(rows, dec_index(rs))
        if not sub:
            return None
        ml = min(len(r) for r in sub)
        if op == "col":
            return mk(v, dtype, rows, op, row=rs, col=int(rng.integers(-ml, ml)))
        for _ in range(20):
            def b():
                return None if rng.random() < 0.3 else int(rng.integers(-10, 11))
            a, bb = b(), b()
            s = None if rng.random() < 0.2 else int(rng.choice([1, 2, 3, 4, 5, -1, -2, -3, -4]))
            if col_slice_ok(sub, a, bb, s):
                return mk(v, dtype, rows, op, row=rs, col={"slice": [a, bb, s]})
        return None
    if op == "rowred":
        return list(_red_cases(v, dtype, rows))[int(rng.integers(0, 6 if v == "m2d" else 9))]
    if op == "colred":
        cs = list(_colred_cases(v, dtype, rows))
        return cs[int(rng.integers(0, len(cs)))]
    if op == "ravel":
        return mk("mrag" if v == "m2d" else v, dtype, rows, op)
    if op == "concat":
        if v == "m2d":
            v = "mrag"
        return mk(v, dtype, rows, op, v2=v, rows2=typed(rows[::-1], dtype))
    cfgs = ufunc_configs(dtype, n)
    return mk(v, dtype, rows, "ufunc", **cfgs[int(rng.integers(0, len(cfgs)))])


def nontrivial(case):
    if case["v"] == "iv":
        return any(s > 0 and e < case["row_len"] for s, e in zip(case["starts"], case["ends"]))
    rows = case["rows"]
    return len(rows) >= 2 and any(any(a != b for a, b in zip(r[:-1], r[1:])) for r in rows)


# ---------------------------------------------------------------------------------------------
# oracle

def _eq(got, exp):
    if isinstance(exp, (list, tuple)):
        if not isinstance(got, (list, tuple)) or len(got) != len(exp):
            return False
        return all(_eq(g, e) for g, e in zip(got, exp))
    if isinstance(got, (list, tuple)):
        return False
    if isinstance(exp, float) or isinstance(got, float):
        try:
            g, e = float(got), float(exp)
        except (TypeError, ValueError):
            return False
        if math.isnan(e) or math.isnan(g):
            return math.isnan(e) and math.isnan(g)
        return g == e or math.isclose(g, e, rel_tol=1e-12, abs_tol=1e-12)
    return got == exp


def _obs(res):
    """decode a library result into plain Python lists / scalars"""
    from npstructures import RaggedArray
    from npstructures.runlengtharray import RunLengthArray, RunLength2dArray, RunLengthRaggedArray
    if isinstance(res, RunLengthRaggedArray):
        return res.to_array().tolist()
    if isinstance(res, (RunLength2dArray, RunLengthArray)):
        return np.asarray(res.to_array()).tolist()
    if isinstance(res, RaggedArray):
        return res.tolist()
    return np.asarray(res).tolist()


def _dense(case):
    """-> (rows as lists of numpy-typed python values, numpy dtype)"""
    if case["v"] == "iv":
        L = case["row_len"]
        dt = np.dtype(bool) if case.get("value") is True else np.dtype("int64")
        one = True if case.get("value") is True else 1
        zero = False if case.get("value") is True else 0
        rows = [[one if s <= j < e else zero for j in range(L)] for s, e in zip(case["starts"], case["ends"])]
        return rows, dt
    dt = np.dtype(case["dtype"])
    return [np.array(r, dtype=dt).tolist() for r in case["rows"]], dt


def _construct(v, rows, dt, case=None):
    from npstructures import RaggedArray
    from npstructures.runlengtharray import RunLength2dArray, RunLengthRaggedArray
    if v == "m2d":
        return RunLength2dArray.from_array(np.array(rows, dtype=dt))
    if v == "mrag":
        return RunLengthRaggedArray.from_array(np.array(rows, dtype=dt))
    if v == "rag":
        # the ragged input is a freshly built array or (deterministically, depending on the rows) a lazily derived one holding the same rows:
        # reversed twice, a tail, an index list, a boolean mask - "built from a ragged array" does not depend on how that array came about (C06)
        def fresh(rs):
            return RaggedArray(np.array([x for r in rs for x in r], dtype=dt), [len(r) for r in rs])
        n = len(rows)
        how = (sum(len(r) * (i + 3) for i, r in enumerate(rows)) + n) % 5
        dummy = [rows[0][0]] * 2 if n and len(rows[0]) else [0]
        if how == 1 and n:
            ra = fresh(rows[::-1])[::-1]
        elif how == 2 and n:
            ra = fresh([dummy] + rows)[1:]
        elif how == 3 and n:
            perm = list(range(n))[::-1]
            ra = fresh([rows[i] for i in perm])[[perm.index(i) for i in range(n)]]
        elif how == 4 and n:
            inter, mask = [], []
            for r in rows:
                inter += [r, dummy]
                mask += [True, False]
            ra = fresh(inter)[np.array(mask)]
        else:
            ra = fresh(rows)
        return RunLengthRaggedArray.from_ragged_array(ra)
    if v == "iv":
        st, en = np.array(case["starts"], dtype=np.int64), np.array(case["ends"], dtype=np.int64)
        if case.get("value") is None:
            return RunLength2dArray.from_intervals(st, en, case["row_len"])
        return RunLength2dArray.from_intervals(st, en, case["row_len"], case["value"])
    raise ValueError(v)


def _dk(case):
    if case["v"] == "iv":
        return "intervals/" + ("bool" if case.get("value") is True else "int")
    return VCLASS[case["v"]] + "/" + KIND[case["dtype"]]


def _sel_sig(s):
    if s is None:
        return "none"
    if isinstance(s, dict):
        if "slice" in s:
            st = s["slice"][2]
            return "slice" + ("-" if st is not None and st < 0 else "+")
        return next(iter(s))
    return "int" + ("-" if s < 0 else "+")


def _colslice_sig(sub, c):
    a, b, s = c["slice"]
    out = "slice" + ("-" if s is not None and s < 0 else "+")
    if s is not None and abs(s) > 1:
        out += "step"
    if any(x is not None and not all(-len(r) <= x <= len(r) for r in sub) for x in (a, b)):
        out += "clamp"
    return out


def _describe(case):
    d = {k: v for k, v in case.items() if k not in ("op",)}
    return f"{case['op']} {d}"


def _viol(kind, what, case, exp=None, got=None, err=None):
    sig = f"{kind}:{what}:{_dk(case)}"
    if err is not None:
        return {"msg": f"{_describe(case)}: expected {exp}, raised {type(err).__name__}: {err}", "sig": sig}
    return {"msg": f"{_describe(case)}: expected {exp}, got {got}", "sig": sig}


def _run(what, case, exp, thunk):
    """run a library thunk, decode, compare"""
    try:
        got = _obs(thunk())
    except Exception as e:
        return _viol("raised:" + type(e).__name__, what, case, exp=exp, err=e)
    if not _eq(got, exp):
        return _viol("wrong", what, case, exp=exp, got=got)
    return None


def _np(rows, dt):
    return [np.array(r, dtype=dt) for r in rows]


def check(case):
    import_repo()
    rows, dt = _dense(case)
    v, op = case["v"], case["op"]
    n = len(rows)
    lengths = [len(r) for r in rows]
    ragged = v in RAGGED
    try:
        rl = _construct(v, rows, dt, case)
    except Exception as e:
        return _viol("raised:" + type(e).__name__, "construct", case, exp="an array", err=e)

    if op == "basic":
        r = _run("decode", case, rows, lambda: rl)
        if r:
            return r
        r = _run("len", case, n, lambda: len(rl))
        if r:
            return r
        try:
            sh = rl.shape
            ok = len(sh) == 2 and int(sh[0]) == n
            s1 = np.asarray(sh[1]).tolist()
            if ragged:
                ok = ok and (s1 == lengths or (isinstance(s1, int) and all(l == s1 for l in lengths)))
            else:
                ok = ok and s1 == lengths[0]
        except Exception as e:
            return _viol("raised:" + type(e).__name__, "shape", case, exp=(n, lengths), err=e)
        if not ok:
            return _viol("wrong", "shape", case, exp=(n, lengths if ragged else lengths[0]), got=sh)
        return _run("size", case, sum(lengths), lambda: rl.size)

    if op == "rows":
        rs = dec_index(case["row"])
        if isinstance(rs, tuple):           # rl[(sel,)]
            kind, sub = py_index_rows(rows, rs[0])
            return _run("rows:tuple1:" + _sel_sig(case["row"]["tuple"][0]), case, sub, lambda: rl[rs])
        kind, sub = py_index_rows(rows, rs)
        return _run("rows:" + _sel_sig(case["row"]), case, sub, lambda: rl[rs])

    if op == "elem":
        i, j = case["row"], case["col"]
        return _run(f"elem:{_sel_sig(i)},{_sel_sig(j)}", case, rows[i][j], lambda: rl[i, j])

    if op == "col":
        if not ragged:
            return None
        rs, j = dec_index(case["row"]), case["col"]
        _, sub = select_rows(rows, slice(None) if rs is Ellipsis else rs)
        if not sub or not all(-len(r) <= j < len(r) for r in sub):
            return None         # not of the stated kind
        return _run(f"col:{_sel_sig(case['row'])},{_sel_sig(j)}", case, [r[j] for r in sub], lambda: rl[rs, j])

    if op == "colslice":
        if not ragged:
            return None
        rs, cs = dec_index(case["row"]), dec_index(case["col"])
        kind, sub = select_rows(rows, slice(None) if rs is Ellipsis else rs)
        if cs is Ellipsis:                  # rl[rows, ...] == rl[rows, :]
            if not sub or rs is Ellipsis:
                return None
            exp = sub if kind == "rows" else sub[0]
            return _run(f"colslice:{_sel_sig(case['row'])},ellipsis", case, exp, lambda: rl[rs, cs])
        if not col_slice_ok(sub, *case["col"]["slice"]):
            return None         # not of the stated kind
        exp = [r[cs] for r in sub]
        if kind == "row":
            exp = exp[0]
        rsig = "introw" if kind == "row" else _sel_sig(case["row"])      # rl[i, a:b:s] is 1-D RunLengthArray slicing
        return _run(f"colslice:{rsig},{_colslice_sig(sub, case['col'])}", case, exp, lambda: rl[rs, cs])

    if op == "rowred":
        nm, via = case["name"], case.get("via", "method")
        if nm in ("max", "mean", "argmax") and not ragged:
            return None         # RunLength2dArray has no such method: not demanded
        exp = [getattr(np, nm)(a).tolist() for a in _np(rows, dt)]
        if via == "np":
            return _run(f"rowred:{nm}:np", case, exp, lambda: getattr(np, nm)(rl, axis=-1))
        return _run(f"rowred:{nm}", case, exp, lambda: getattr(rl, nm)(axis=-1))

    if op == "colred":
        nm, via = case["name"], case.get("via", "method")
        if nm == "any" and ragged:
            return None         # promised on the matrix variant only
        if nm in ("mean", "counts") and not ragged:
            return None         # RunLength2dArray has no such method: not demanded
        arrs = _np(rows, dt)
        cols = [np.array([a[j] for a in arrs if len(a) > j], dtype=dt) for j in range(max(lengths))]
        if nm == "counts":
            return _run("colred:counts", case, [len(c) for c in cols], lambda: rl.col_counts())
        exp = [getattr(np, nm)(c).tolist() for c in cols]
        if via == "np":
            return _run(f"colred:{nm}:np", case, exp, lambda: getattr(np, nm)(rl, axis=0))
        return _run(f"colred:{nm}", case, exp, lambda: getattr(rl, nm)(axis=0))

    if op == "ravel":
        if not ragged:
            return None
        return _run("ravel", case, [x for r in rows for x in r], lambda: rl.ravel())

    if op == "concat":
        parts, exp = [rl], list(rows)
        for kv, kr in (("v2", "rows2"), ("v3", "rows3")):
            if kv in case:
                r2 = [np.array(r, dtype=dt).tolist() for r in case[kr]]
                try:
                    parts.append(_construct(case[kv], r2, dt))
                except Exception as e:
                    return _viol("raised:" + type(e).__name__, "construct", case, exp="an array", err=e)
                exp += r2
        return _run("concat" + ("3" if len(parts) == 3 else ""), case, exp, lambda: np.concatenate(parts))

    if op == "ufunc":
        uf = getattr(np, case["ufunc"])
        operand = case.get("operand")
        arrs = _np(rows, dt)
        if operand is None:
            return _run("ufunc:unary", case, [uf(a).tolist() for a in arrs], lambda: uf(rl))
        side = operand["side"]
        if "scalar" in operand:
            other = operand["scalar"]
            if "sctype" in operand:
                other = np.dtype(operand["sctype"]).type(other)
            per_row = [other] * n
            what = "ufunc:scalar-" + side
        else:
            other = np.array(operand["col"], dtype=operand["coldtype"])
            per_row = [other[i, 0] for i in range(n)]
            what = "ufunc:column-" + side
        if side == "right":
            exp = [uf(a, o).tolist() for a, o in zip(arrs, per_row)]
        else:
            exp = [uf(o, a).tolist() for a, o in zip(arrs, per_row)]
        if dt.kind in "iu" and dt.itemsize < 8 and "scalar" in operand and "sctype" not in operand and isinstance(other, int):
            # numpy keeps the small integer dtype for a python int operand (and wraps); mark the cases where that matters
            wide = [a.astype(np.int64) for a in arrs]
            e64 = [(uf(a, other) if side == "right" else uf(other, a)).tolist() for a in wide]
            if e64 != exp:
                what += ":wrap"
        if case.get("via") == "operator":
            if case["ufunc"] != "subtract":
                raise ValueError("operator route only for subtract")
            what += ":op"
            if side == "right":
                return _run(what, case, exp, lambda: rl - other)
            return _run(what, case, exp, lambda: other - rl)
        if side == "right":
            return _run(what, case, exp, lambda: uf(rl, other))
        return _run(what, case, exp, lambda: uf(other, rl))

    raise ValueError("unknown op " + str(op))
