"""C14 bounded stand-in: run-length encoding is lossless and canonical.

(1) encode/decode round trip of every array over the dtype alphabets (element-by-element equality per numpy ==
    with NaN == NaN, dtype, len/size/shape, to_array / np.asarray / np.array), plus the canonical form of the
    encoding;
(2) the canonical form of every RunLengthArray the library *produces*: by slicing, by unary / scalar / binary
    ufuncs and by np.concatenate.  Boundaries: start at 0, strictly increasing, end at the length, one value per
    run.  "No two adjacent runs with equal values" is demanded only where the statement promises it: encoding,
    stepped slicing (step not in (None, 1)) and ufuncs on two run-length operands.
    An operation that raises produces no array, so C14 has nothing to inspect (C15 / C16 report the exception).
"""
import numpy as np

from .common import import_repo
from . import rle_util as U

PROPERTY = "C14"
RULE = ("exhaustive: (encode) every array of length 1..N over each 3-value alphabet of each dtype (= every composition "
        "of the length into runs x every value assignment; alphabets contain NaN, 0.0/-0.0, inf, dtype extremes; bool: "
        "True/False); (slice) every slice with start/stop in {None,-(n+2)..n+2} x step in {None,+-1,+-2,+-3} of every "
        "2-value int64 array of length <= S plus selected longer patterns with non-unit steps, plus float64-with-NaN and "
        "bool arrays; (ufunc2) every pair of 2-value arrays of equal length <= P (all relative alignments of run "
        "boundaries) under add / equal / maximum; (unary, scalar) listed ufuncs on selected patterns; (concat) every "
        "pair / triple of 2-value arrays of length <= 3 / <= 2. thorough adds default_rng(seed) arrays of length <= 60 "
        "with random runs. non-trivial = at least two runs, or a NaN / -0.0 / inf element, or a stepped or clamped slice")
BOUNDS = {
    "quick": {"dtypes": U.QUICK_DTYPES, "encode_max_len": 6, "slice_full_max_len": 4, "slice_selected_lens": [5, 6],
              "pair_max_len": 6, "pair_ufuncs": ["add", "equal", "maximum"], "concat2_max_len": 3, "concat3_max_len": 2,
              "random": 0},
    "thorough": {"dtypes": U.ALL_DTYPES, "encode_max_len": 9, "encode_max_len_extra_dtypes": 6, "slice_full_max_len": 5,
                 "slice_selected_lens": [6, 7, 8, 9], "pair_max_len": 7, "pair_ufuncs": ["add", "equal", "maximum"],
                 "concat2_max_len": 4, "concat3_max_len": 3, "random": 60000},
}

INT_AB = [7, 8]
LONG_PATTERNS = [[0] * 64, [0] * 40 + [1] * 24, [0, 1] * 32, [0] * 63 + [1], [2] + [0] * 63, [0] * 300 + [1] * 2 + [2] * 200]


def _mapped(pattern, base=10):
    return [base + i for i in pattern]


def cases(tier, seed):
    b = BOUNDS[tier]
    # (1) encode
    for d in b["dtypes"]:
        nmax = b["encode_max_len"] if d in U.QUICK_DTYPES else b["encode_max_len_extra_dtypes"]
        for name, alpha in U.alphabets(d, tier):
            for n in range(1, nmax + 1):
                for w in U.words(alpha, n):
                    yield {"k": "encode", "dtype": d, "a": w}
    for d in b["dtypes"]:
        for name, alpha in U.alphabets(d, tier):
            for p in LONG_PATTERNS:
                yield {"k": "encode", "dtype": d, "a": [alpha[i % len(alpha)] for i in p]}
    # (2a) slices inside the array (those whose bounds need clamping come last in the exhaustive part)
    for c in _slice_cases(b):
        if not U.slice_out_of_range(len(c["a"]), c["s"]):
            yield c
    yield from _other_cases(b, tier)
    for c in _slice_cases(b):
        if U.slice_out_of_range(len(c["a"]), c["s"]):
            yield c
    if b["random"]:
        yield from _random_cases(b, tier, seed)


def _slice_cases(b):
    for n in range(1, b["slice_full_max_len"] + 1):
        for w in U.words(INT_AB, n):
            for s in U.all_slices(n):
                yield {"k": "slice", "dtype": "int64", "a": w, "s": s}
    for n in b["slice_selected_lens"]:
        for p in U.selected_patterns(n):
            for s in U.all_slices(n, steps=[-1, 2, -2, 3, -3]):
                yield {"k": "slice", "dtype": "int64", "a": _mapped(p), "s": s}
    for d, alpha in (("float64", [float("nan"), -0.0, 0.0]), ("bool", [False, True]), ("uint8", [255, 0])):
        for n in range(1, 4):
            for w in U.words(alpha[:2] if n == 3 else alpha, n):
                for s in U.all_slices(n):
                    yield {"k": "slice", "dtype": d, "a": w, "s": s}


def _other_cases(b, tier):
    # (2b) ufuncs on two run-length operands
    for n in range(1, b["pair_max_len"] + 1):
        for x, y in U.binary_pairs(n, INT_AB, [1, 2]):
            for u in b["pair_ufuncs"]:
                yield {"k": "ufunc2", "dtype": "int64", "a": x, "dtype2": "int64", "b": y, "u": u}
    for d1, a1, d2, a2 in (("float64", [float("nan"), 0.0], "float64", [-0.0, 1.0]), ("bool", [False, True], "bool", [False, True]),
                           ("uint8", [255, 1], "int8", [-1, 1]), ("float32", [float("inf"), 1.5], "int64", [0, 1])):
        us = U.usable_ufuncs2(d1, d2, ["add", "multiply", "maximum", "equal", "logical_and", "bitwise_xor"])
        for n in range(1, 5):
            for x, y in U.binary_pairs(n, a1, a2):
                for u in us:
                    yield {"k": "ufunc2", "dtype": d1, "a": x, "dtype2": d2, "b": y, "u": u}
    # (2c) unary / scalar ufuncs
    for d in b["dtypes"]:
        alpha = U.alphabets(d, tier)[-1][1]
        pats = [p for n in (1, 3, 4, 6) for p in U.selected_patterns(n)]
        arrays = []
        for p in pats:
            w = [alpha[i % len(alpha)] for i in p]
            if w not in arrays:
                arrays.append(w)
        for w in arrays:
            for u in U.usable_ufuncs1(d):
                yield {"k": "unary", "dtype": d, "a": w, "u": u}
            for u in ("add", "subtract", "multiply", "less", "maximum"):
                for sc in ({"py": 2}, {"py": 2.5}, {"np": "int8", "v": 7}):
                    for side in ("l", "r"):
                        yield {"k": "scalar", "dtype": d, "a": w, "u": u, "sc": sc, "side": side}
    # (2d) concatenation
    n2, n3 = b["concat2_max_len"], b["concat3_max_len"]
    ws2 = [w for n in range(1, n2 + 1) for w in U.words(INT_AB, n)]
    ws3 = [w for n in range(1, n3 + 1) for w in U.words(INT_AB, n)]
    for x in ws2:
        for y in ws2:
            yield {"k": "concat", "parts": [{"dtype": "int64", "a": x}, {"dtype": "int64", "a": y}]}
    for x in ws3:
        for y in ws3:
            for z in ws3:
                yield {"k": "concat", "parts": [{"dtype": "int64", "a": x}, {"dtype": "int64", "a": y}, {"dtype": "int64", "a": z}]}
    for x in ([float("nan")], [0.0, float("nan")], [float("nan"), float("nan"), 1.0]):
        for y in ([float("nan")], [-0.0], [1.0, 1.0]):
            yield {"k": "concat", "parts": [{"dtype": "float64", "a": x}, {"dtype": "float32", "a": y}]}


def _random_cases(b, tier, seed):
    rng = np.random.default_rng(seed)
    for i in range(b["random"]):
        d = b["dtypes"][int(rng.integers(0, len(b["dtypes"])))]
        alphas = U.alphabets(d, tier)
        alpha = alphas[int(rng.integers(0, len(alphas)))][1]
        w = _random_runs(rng, alpha, int(rng.integers(1, 61)))
        kind = int(rng.integers(0, 4))
        if kind == 0:
            yield {"k": "encode", "dtype": d, "a": w}
        elif kind == 1:
            n = len(w)

            def rb():
                return None if rng.random() < 0.25 else int(rng.integers(-n - 3, n + 4))
            st = [None, 1, -1, 2, -2, 3, -3, 4, -5, 7][int(rng.integers(0, 10))]
            yield {"k": "slice", "dtype": d, "a": w, "s": [rb(), rb(), st]}
        elif kind == 2:
            d2 = b["dtypes"][int(rng.integers(0, len(b["dtypes"])))]
            alpha2 = U.alphabets(d2, tier)[0][1]
            w2 = _random_runs(rng, alpha2, len(w))
            us = U.usable_ufuncs2(d, d2)
            yield {"k": "ufunc2", "dtype": d, "a": w, "dtype2": d2, "b": w2, "u": us[int(rng.integers(0, len(us)))]}
        else:
            w2 = _random_runs(rng, alpha, int(rng.integers(1, 30)))
            yield {"k": "concat", "parts": [{"dtype": d, "a": w}, {"dtype": d, "a": w2}]}


def _random_runs(rng, alpha, n):
    out = []
    while len(out) < n:
        v = alpha[int(rng.integers(0, len(alpha)))]
        out += [v] * int(rng.choice([1, 1, 2, 3, 5, 12]))
    return out[:n]


def nontrivial(case):
    k = case["k"]
    if k == "concat":
        return any(U.n_runs(U.arr(p["a"], p["dtype"])) > 1 for p in case["parts"])
    a = U.arr(case["a"], case["dtype"])
    if k == "slice":
        st = case["s"][2]
        return st not in (None, 1) or U.slice_out_of_range(len(a), case["s"])
    if k == "ufunc2":
        return U.n_runs(a) > 1 and U.n_runs(U.arr(case["b"], case["dtype2"])) > 1
    return U.n_runs(a) > 1 or U.special_float(a)


def _check_encode(case):
    from npstructures.runlengtharray import RunLengthArray
    a = U.arr(case["a"], case["dtype"])
    orig = a.copy()
    what = f"encode {U.show(orig)}"
    try:
        r = RunLengthArray.from_array(a)
    except Exception as e:
        return {"msg": f"{what}: from_array raised {type(e).__name__}: {e}", "sig": f"raised:{type(e).__name__}:encode"}
    p = U.canon_problem(r, adjacent_distinct=True)
    if p:
        return {"msg": f"{what}: {p[1]}", "sig": f"canon:{p[0]}:encode"}
    if U.n_runs(orig) != len(np.asarray(r._values)):
        return {"msg": f"{what}: {len(np.asarray(r._values))} runs stored, the array has {U.n_runs(orig)} maximal runs",
                "sig": "canon:run-count:encode"}
    for name, f in (("to_array", lambda: r.to_array()), ("np.asarray", lambda: np.asarray(r)), ("np.array", lambda: np.array(r))):
        try:
            back = f()
        except Exception as e:
            return {"msg": f"{what}: {name} raised {type(e).__name__}: {e}", "sig": f"raised:{type(e).__name__}:decode:{name}"}
        if not isinstance(back, np.ndarray) or not U.same(back, orig):
            return {"msg": f"{what}: {name} gives {U.show(back)}", "sig": f"wrong:decode:{name}:{U.dtype_class(case['dtype'])}"}
        if back.dtype != orig.dtype:
            return {"msg": f"{what}: {name} gives dtype {back.dtype}", "sig": f"wrong-dtype:decode:{name}"}
    try:
        meta = (r.dtype, len(r), r.size, tuple(r.shape), r.ndim)
    except Exception as e:
        return {"msg": f"{what}: dtype/len/size/shape raised {type(e).__name__}: {e}", "sig": f"raised:{type(e).__name__}:meta"}
    exp = (orig.dtype, len(orig), orig.size, orig.shape, 1)
    if not (meta[0] == exp[0] and int(meta[1]) == exp[1] and int(meta[2]) == exp[2]
            and tuple(int(x) for x in meta[3]) == exp[3] and meta[4] == 1):
        return {"msg": f"{what}: (dtype, len, size, shape, ndim) = {meta}, expected {exp}", "sig": "wrong:meta"}
    if not U.same(a, orig) or a.dtype != orig.dtype:
        return {"msg": f"{what}: the encoded array was modified to {U.show(a)}", "sig": "modified:encode-input"}
    return None


def _what(case):
    k = case["k"]
    if k == "concat":
        return "np.concatenate(" + ", ".join(U.show(U.arr(p["a"], p["dtype"])) for p in case["parts"]) + ")"
    a = U.show(U.arr(case["a"], case["dtype"]))
    if k == "slice":
        return f"rla({a})[{case['s'][0]}:{case['s'][1]}:{case['s'][2]}]"
    if k == "unary":
        return f"np.{case['u']}(rla({a}))"
    if k == "scalar":
        s = U.show(U.dec_scalar(case["sc"]))
        return f"np.{case['u']}(rla({a}), {s})" if case["side"] == "r" else f"np.{case['u']}({s}, rla({a}))"
    return f"np.{case['u']}(rla({a}), rla({U.show(U.arr(case['b'], case['dtype2']))}))"


def check(case):
    import_repo()
    from npstructures.runlengtharray import RunLengthArray
    k = case["k"]
    with np.errstate(all="ignore"):
        if k == "encode":
            return _check_encode(case)
        dense, fn = U.operation(case)
        try:
            exp = fn(dense)
        except Exception:
            return None            # numpy itself refuses the operation: outside the property
        try:
            res = fn([RunLengthArray.from_array(d) for d in dense])
        except Exception:
            return None            # nothing produced; reported by C15 / C16
        if not isinstance(res, RunLengthArray):
            return None
        oor = k == "slice" and U.slice_out_of_range(len(dense[0]), case["s"])
        where = k + (":out-of-range-bound" if oor else "")
        promise = k == "ufunc2" or (k == "slice" and case["s"][2] not in (None, 1))
        p = U.canon_problem(res, adjacent_distinct=promise)
        if p:
            return {"msg": f"{_what(case)}: {p[1]}", "sig": f"canon:{p[0]}:{where}"}
        if len(res) != len(exp):
            return {"msg": f"{_what(case)}: boundaries {np.asarray(res._events).tolist()} end at {len(res)}, the dense "
                           f"result has length {len(exp)}", "sig": f"canon:length:{where}"}
    return None
