"""C06 bounded stand-in: an array derived by a chain of operations is indistinguishable from a freshly
constructed array with the same rows, and assigning into it never alters its source."""
import itertools
import numpy as np
from .common import import_repo, length_vectors, rows_for, dec_index

PROPERTY = "C06"
RULE = ("exhaustive: row-length vectors (rows<=R, len<=L) x chains of 1..D derivation steps (row slice / row list / row mask "
        "/ column slice of either sign / (rows, column slice) / ufunc / concatenate / sort / cumsum / where) x probes (every "
        "integer row, every element, every integer column, column slices, row selections, ufunc, reductions, concatenate, "
        "tolist/shape/len/size, assignment followed by a look at derived array and source). Each probe is applied to a newly "
        "derived (still lazy) array and to RaggedArray(list of its rows); results must agree, and the derived rows must equal "
        "the list-of-rows oracle. non-trivial = chain depth >= 2 or an empty row or a non-unit column step")
BOUNDS = {"quick": {"max_rows": 3, "max_len": 3, "depth": 2, "shapes": "rows<=3 x len<=3 (27 with 3 rows sampled by len<=2)"},
          "thorough": {"max_rows": 4, "max_len": 4, "depth": 3}}

STEPS = [
    ("rows", {"slice": [1, None, None]}), ("rows", {"slice": [None, None, -1]}), ("rows", {"slice": [None, None, 2]}),
    ("rows", {"slice": [None, -1, None]}), ("rows", {"list": "rev"}), ("rows", {"list": "dup"}), ("rows", {"mask": "alt"}),
    ("cols", {"slice": [None, None, 2]}), ("cols", {"slice": [1, None, None]}), ("cols", {"slice": [None, None, -1]}),
    ("cols", {"slice": [None, -1, None]}), ("cols", {"slice": [None, None, -2]}), ("cols", {"slice": [1, None, 2]}),
    ("cols", {"slice": [0, 2, None]}),
    ("both", [{"slice": [1, None, None]}, {"slice": [None, None, 2]}]), ("both", [{"list": "rev"}, {"slice": [1, None, None]}]),
    ("func", "add1"), ("func", "concat_self"), ("func", "sort"), ("func", "cumsum"), ("func", "where"), ("func", "neg"),
]
Q_STEPS = [s for s in STEPS if s[1] not in ("sort", "where", "neg")]

PROBES = ["tolist", "meta", "int_rows", "elements", "int_cols", "col_slices", "row_sels", "ufunc", "reductions",
          "concat", "assign_scalar", "assign_row", "iter", "astype", "nonzero"]


def cases(tier, seed):
    b = BOUNDS[tier]
    steps = Q_STEPS if tier == "quick" else STEPS
    for lengths in length_vectors(b["max_rows"], b["max_len"], 1):
        if tier == "quick" and len(lengths) == 3 and max(lengths) > 2 and lengths != [3, 0, 2]:
            continue
        for d in range(1, b["depth"] + 1):
            for chain in itertools.product(range(len(steps)), repeat=d):
                if d == 3 and tier == "thorough" and (sum(chain) + len(lengths)) % 7:
                    continue
                for probe in PROBES:
                    yield {"lengths": lengths, "chain": [list(steps[i]) for i in chain], "probe": probe}
    if tier == "thorough":
        rng = np.random.default_rng(seed)
        for _ in range(30000):
            n = int(rng.integers(1, 6))
            lengths = [int(x) for x in rng.integers(0, 6, size=n)]
            d = int(rng.integers(1, 5))
            chain = [list(STEPS[int(i)]) for i in rng.integers(0, len(STEPS), size=d)]
            yield {"lengths": lengths, "chain": chain, "probe": str(rng.choice(PROBES))}


def nontrivial(case):
    if len(case["chain"]) >= 2 or 0 in case["lengths"]:
        return True
    return any(isinstance(s[1], dict) and "slice" in s[1] and s[1]["slice"][2] not in (None, 1) for s in case["chain"])


def _rowsel(spec, n):
    if "list" in spec:
        if spec["list"] == "rev":
            return list(range(n - 1, -1, -1))
        if spec["list"] == "dup":
            return [0, 0] + list(range(n)) if n else []
        return spec["list"]
    if "mask" in spec:
        return np.array([i % 2 == 0 for i in range(n)], dtype=bool)
    return dec_index(spec)


def _apply_rows_list(rows, sel):
    if isinstance(sel, slice):
        return rows[sel]
    if isinstance(sel, np.ndarray) and sel.dtype == bool:
        return [r for r, m in zip(rows, sel) if m]
    return [rows[i] for i in sel]


def derive(ra, rows, chain):
    """apply the chain both to the library array (lazily) and to the list of rows (oracle)"""
    from npstructures import RaggedArray
    for kind, spec in chain:
        n = len(rows)
        if kind == "rows":
            sel = _rowsel(spec, n)
            ra = ra[sel]
            rows = _apply_rows_list(rows, sel)
        elif kind == "cols":
            sl = dec_index(spec)
            ra = ra[:, sl]
            rows = [r[sl] for r in rows]
        elif kind == "both":
            sel, sl = _rowsel(spec[0], n), dec_index(spec[1])
            ra = ra[sel, sl]
            rows = [r[sl] for r in _apply_rows_list(rows, sel)]
        elif spec == "add1":
            ra = ra + 1
            rows = [[v + 1 for v in r] for r in rows]
        elif spec == "neg":
            ra = -ra
            rows = [[-v for v in r] for r in rows]
        elif spec == "concat_self":
            ra = np.concatenate([ra, ra])
            rows = rows + rows
        elif spec == "sort":
            ra = ra.sort(axis=-1)
            rows = [sorted(r) for r in rows]
        elif spec == "cumsum":
            if sum(len(r) for r in rows) == 0:
                continue
            ra = np.cumsum(ra, axis=-1)
            rows = [np.cumsum(r).tolist() if r else [] for r in rows]
        elif spec == "where":
            ra = np.where(ra > 12, ra, 0)
            rows = [[v if v > 12 else 0 for v in r] for r in rows]
    return ra, [list(r) for r in rows]


def run_probe(probe, mk, rows):
    """-> JSON-like observations; exceptions are observations too (type only).  `mk()` gives a NEW array (a newly derived,
    still lazy one for the derived side) for EVERY observation, so that an earlier read cannot hide a defect of a later one."""
    from npstructures import RaggedArray

    class _A:
        def __getattr__(self, name):
            return getattr(mk(), name)

        def __getitem__(self, idx):
            return mk()[idx]

    def obs(f):
        try:
            r = f(mk())
            if isinstance(r, RaggedArray):
                r = ("ragged", r.tolist(), str(r.dtype))
        except Exception as e:
            return ("raised", type(e).__name__)
        if isinstance(r, tuple) and len(r) == 3 and r[0] == "ragged":
            return r
        if isinstance(r, tuple):
            return ("tuple", [np.asarray(x).tolist() for x in r])
        if isinstance(r, list):
            return ("list", r)
        r = np.asarray(r)
        return ("array", r.tolist(), str(r.dtype))
    n = len(rows)
    maxl = max([len(r) for r in rows] + [0])
    fmask = RaggedArray([[(v % 3) != 0 for v in r] for r in rows], dtype=bool) if n else None     # built independently of `a`
    if probe == "tolist":
        return [obs(lambda a: a)]
    if probe == "meta":
        # the integer width of the row-length vector is not an observable any property fixes: values only
        return [obs(lambda a: int(len(a))), obs(lambda a: int(a.size)), obs(lambda a: int(a.shape[0])),
                obs(lambda a: np.asarray(a.shape[1]).tolist()), obs(lambda a: np.asarray(a.lengths).tolist())]
    if probe == "int_rows":
        return [obs(lambda a, i=i: a[i]) for i in range(-n - 1, n + 1)]
    if probe == "elements":
        return [obs(lambda a, i=i, j=j: a[i, j]) for i in range(-n, n) for j in range(-maxl - 1, maxl + 1)]
    if probe == "int_cols":
        return [obs(lambda a, j=j: a[:, j]) for j in range(-maxl - 1, maxl + 1)] + \
               [obs(lambda a, j=j: a[[0], j]) for j in range(-maxl - 1, maxl + 1)]
    if probe == "col_slices":
        return [obs(lambda a, s=s: a[:, slice(*s)]) for s in ([None, None, None], [1, None, None], [None, None, -1], [None, None, 2],
                                                                 [0, None, -1], [-2, None, None], [None, 1, None], [1, None, -2])]
    if probe == "row_sels":
        return [obs(lambda a: a[1:]), obs(lambda a: a[::-1]), obs(lambda a: a[list(range(n))[::-1]]), obs(lambda a: a[::2]),
                obs(lambda a: a[np.array([i % 2 == 1 for i in range(n)], dtype=bool)]), obs(lambda a: a[...]), obs(lambda a: a[-1:])]
    if probe == "ufunc":
        return [obs(lambda a: a * 2), obs(lambda a: 100 - a), obs(lambda a: a == a), obs(lambda a: a + a),
                obs(lambda a: a + np.arange(n)[:, None]), obs(lambda a: np.negative(a))]
    if probe == "reductions":
        return [obs(lambda a: a.sum(axis=-1)), obs(lambda a: np.sum(a)), obs(lambda a: a.any(axis=-1)), obs(lambda a: a.all(axis=-1)),
                obs(lambda a: a.sum(axis=-1, keepdims=True)), obs(lambda a: a.sum(axis=0) if maxl else 0),
                obs(lambda a: a.col_counts() if maxl else 0), obs(lambda a: a.mean(axis=0) if maxl else 0),
                obs(lambda a: a.astype(float).mean(axis=0) if maxl else 0), obs(lambda a: a.max(axis=-1) if min(map(len, rows)) else 0),
                obs(lambda a: a.argmax(axis=-1) if min(map(len, rows)) else 0), obs(lambda a: np.add.reduce(a, axis=-1)),
                obs(lambda a: a.get_column_values(0) if maxl else 0)]
    if probe == "concat":
        return [obs(lambda a: np.concatenate([a, a])), obs(lambda a: np.concatenate([a, a], axis=-1)), obs(lambda a: np.zeros_like(a)),
                obs(lambda a: np.diff(a, axis=-1)), obs(lambda a: np.cumsum(a, axis=-1) if a.size else 0), obs(lambda a: a.sort(axis=-1)),
                obs(lambda a: np.unique(a, axis=-1)), obs(lambda a: a.as_padded_matrix() if maxl else 0),
                obs(lambda a: a.as_padded_matrix(side="left") if maxl else 0), obs(lambda a: np.add.accumulate(a, axis=-1) if a.size else 0)]
    if probe == "iter":
        return [obs(lambda a: [np.asarray(r).tolist() for r in a]), obs(lambda a: a.ravel()), obs(lambda a: repr(a)), obs(lambda a: a.tolist())]
    if probe == "astype":
        return [obs(lambda a: a.astype(float)), obs(lambda a: a.astype(bool))]
    if probe == "nonzero":
        from npstructures import ragged_slice
        return [obs(lambda a: np.nonzero(a)), obs(lambda a: a.subset(a > 12)), obs(lambda a: a[a > 12]),
                obs(lambda a: a[fmask]), obs(lambda a: a.subset(fmask)), obs(lambda a: np.where(fmask, a, 0)),
                obs(lambda a: np.where(fmask, 0, a)), obs(lambda a: ragged_slice(a, np.zeros(n, dtype=int), np.asarray(a.lengths))),
                obs(lambda a: ragged_slice(a, ends=-np.minimum(1, np.asarray(a.lengths))))]
    raise KeyError(probe)


def check(case):
    import_repo()
    from npstructures import RaggedArray
    lengths, chain, probe = case["lengths"], [tuple(c) for c in case["chain"]], case["probe"]
    rows0 = rows_for(lengths, base=10)
    flat0 = np.array([v for r in rows0 for v in r], dtype=np.int64)

    def fresh_source():
        return RaggedArray(flat0.copy(), lengths)
    sig = ">".join(_step_sig(c) for c in chain) + ":" + probe
    src = fresh_source()
    try:
        d, drows = derive(src, rows0, chain)
    except Exception as e:
        return {"msg": f"derivation {chain} of rows {rows0} raised {type(e).__name__}: {e}", "sig": "raised:derive:" + sig.split(":")[0]}
    if not isinstance(d, RaggedArray):
        return None
    if probe in ("assign_scalar", "assign_row"):
        before = src.tolist()
        f = RaggedArray(drows, dtype=d.dtype) if len(drows) else None
        if f is None:
            return None
        n = len(drows)
        try:
            if probe == "assign_scalar":
                d[::2] = 555
                f[::2] = 555
                if n:
                    d[0, 0:1] = 444
                    f[0, 0:1] = 444
            else:
                k = n - 1
                d[k] = 333
                f[k] = 333
        except Exception as e:
            return {"msg": f"assignment into the array derived by {chain} from {rows0} raised {type(e).__name__}: {e}",
                    "sig": f"raised:{type(e).__name__}:" + sig}
        if d.tolist() != f.tolist():
            return {"msg": f"after assignment, derived {chain} of {rows0}: {d.tolist()} != fresh {f.tolist()}", "sig": "wrong:" + sig}
        if src.tolist() != before:
            return {"msg": f"assigning into the array derived by {chain} altered its source: {before} -> {src.tolist()}",
                    "sig": "source-altered:" + sig}
        return None
    if probe == "tolist":
        try:
            got = d.tolist()
        except Exception as e:
            return {"msg": f"reading the array derived by {chain} from {rows0} raised {type(e).__name__}: {e}",
                    "sig": f"raised:{type(e).__name__}:" + sig}
        if got != drows and not (len(got) == 0 and len(drows) == 0):
            return {"msg": f"derived {chain} of {rows0}: expected rows {drows}, got {got}", "sig": "wrong-rows:" + sig}
        return None
    if len(drows) == 0:
        return None
    f = RaggedArray(drows, dtype=d.dtype)
    o_d = run_probe(probe, lambda: derive(fresh_source(), rows0, chain)[0], drows)
    o_f = run_probe(probe, lambda: RaggedArray(drows, dtype=d.dtype), drows)
    for k, (x, y) in enumerate(zip(o_d, o_f)):
        if x != y:
            if x[0] == "raised" and y[0] == "raised":
                continue       # both refuse; the exception type is not part of the statement
            return {"msg": f"probe {probe}#{k} on the array derived by {chain} from {rows0} (rows {drows}): derived gives {x}, "
                           f"fresh gives {y}", "sig": "differs:" + sig}
    return None


def _step_sig(c):
    kind, spec = c
    if kind == "func":
        return spec
    if kind == "both":
        return "both"
    if "slice" in spec:
        st = spec["slice"][2]
        return kind + ("-" if st is not None and st < 0 else ("2" if st not in (None, 1) else "+"))
    return kind + "." + next(iter(spec))
