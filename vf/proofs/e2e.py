"""End-to-end composition for C02 / C03 / C06, mechanised: the REAL chain  __getitem__ -> _get_row_subset -> view_rows -> col_slice -> (lazy array)
-> ravel -> _flatten_myself -> gather  is executed on a symbolic array, with ONE callee replaced by its proved contract (view.get_flat_indices:
idx[S'(r)+c] = start(r) + c*step over the geometry of the view's lengths; proved in raggedshape.build_indices / RaggedView2._get_flat_indices), and
the result is compared cell by cell with Python list indexing  [row[cols] for row in rows[rowsel]]  given by CPython's slice rule (spec function
pyslice).  The same for assignment: ra[rowsel, cols] = scalar writes exactly the selected cells."""
import numpy as np
import z3

from .base import Family, register, model_int
from .ragged import sym_ragged, sym_shape
from .colslice import slice_components, model_slice
from ..sym.core import SInt, cur, fresh_name
from ..sym.arr import SymArr, I, dim_term, pyslice

ROW_KINDS = ["NNN", "SSS", "SNN", "NNS"]
# column selectors: start / stop None or symbolic; the column STEP is a concrete representative here (so that cell positions first + c*step stay
# linear): the statement for every symbolic step is the conjunction of the callee families (col_slice[slice], _calculate_lengths, build_indices)
COL_KINDS = ["NN:1", "SS:1", "SS:2", "SS:-1", "SS:-3", "NN:-1", "SN:2", "NS:-2"]


def decode_selectors(case, n_rows):
    """(numpy row selector, list-level row selection function, column slice or None) of a concrete case"""
    rows = case["rows"]
    if isinstance(rows, dict) and "index" in rows:
        idx = [i for i in rows["index"] if -n_rows <= i < n_rows]
        rsel, pick = np.array(idx, dtype=int), (lambda lst: [lst[i] for i in idx])
    elif isinstance(rows, dict):
        m = list(rows["mask"])[:n_rows] + [False] * max(0, n_rows - len(rows["mask"]))
        rsel, pick = np.array(m, dtype=bool), (lambda lst: [x for x, keep in zip(lst, m) if keep])
    else:
        rsel, pick = slice(*rows), (lambda lst: lst[slice(*rows)])
    cs = slice(*case["cols"]) if case.get("cols") is not None else None
    return rsel, pick, cs


def stub_flat_indices(ctx):
    """view.get_flat_indices() by contract, for whatever RaggedView2 it is called on: a fresh geometry with the view's row lengths and a gather
    index array with idx[S'(r) + c] = starts[r] + c * col_step; every flat position of the new geometry lies in one of its rows (lemma partition-point)"""
    from npstructures.raggedshape import RaggedView2, RaggedView
    calls = []

    def stub(self_, do_split=False):
        c = cur()
        starts, lengths = self_.starts, self_.lengths
        ss, ls = starts.snapshot(), lengths.snapshot()
        n = dim_term(starts.shape_[0])
        step = I(self_.col_step) if isinstance(self_, RaggedView2) else z3.IntVal(1 if getattr(self_, "_step", None) is None else int(self_._step))
        out_shape = sym_shape(c, "flat")
        c.assume(out_shape.n == n)
        c.assume_forall("flat.L", lambda r: z3.Implies(z3.And(0 <= r, r < n), out_shape.L(r) == ls(r)))
        idx = SymArr.symbolic("gather", out_shape.S(out_shape.n), "int", assume_len=False)
        c.assume_forall("address map", lambda r, k: z3.Implies(z3.And(0 <= r, r < n, 0 <= k, k < ls(r)), idx.fn(out_shape.S(r) + k) == ss(r) + k * step), arity=2)
        rowof = z3.Function(fresh_name("rowof"), z3.IntSort(), z3.IntSort())
        c.assume_forall("rowof", lambda j: z3.Implies(z3.And(0 <= j, j < out_shape.S(out_shape.n)), z3.And(
            0 <= rowof(j), rowof(j) < n, out_shape.S(rowof(j)) <= j, j < out_shape.S(rowof(j)) + out_shape.L(rowof(j)))))
        calls.append({"view": self_, "shape": out_shape, "idx": idx, "rowof": rowof, "starts": ss, "lengths": ls, "step": step, "n": n})
        return idx, out_shape.obj
    old = (RaggedView2.__dict__["get_flat_indices"], RaggedView.__dict__["get_flat_indices"])
    RaggedView2.get_flat_indices = stub
    RaggedView.get_flat_indices = stub

    class Restore:
        """`cls.get_flat_indices = old` in the callers restores both classes"""
        def __setattr__(self_, name, value):
            RaggedView2.get_flat_indices, RaggedView.get_flat_indices = value
    return Restore(), old, calls


def selection_spec(ctx, g, rk, ck, nb=None, Lb=None):
    """the property's reading of x[rowslice, colslice] for a receiver x with nb rows of lengths Lb(i) (default: the array itself):
    selected receiver row of result row r', selected receiver column of its cell c'"""
    nb = g.n if nb is None else nb
    Lb = g.L if Lb is None else Lb
    if rk == "A":
        # an integer index array (negative entries count from the end); requires: every entry names an existing row
        q = z3.Int("q")
        ctx.assume(q >= 0)
        idx = SymArr.symbolic("rowidx", q, "int", np.int64, assume_len=False)
        ctx.assume_forall("row indices exist", lambda i_: z3.Implies(z3.And(0 <= i_, i_ < q), z3.And(-nb <= idx.fn(i_), idx.fn(i_) < nb)))
        rsel, nr = idx, q
        src_row = lambda r_: z3.If(idx.fn(r_) < 0, idx.fn(r_) + nb, idx.fn(r_))
    elif rk == "M":
        from ..sym.arr import nonzero_facts
        mk = SymArr.symbolic("rowmask", nb, "bool", bool, assume_len=False)
        nz = nonzero_facts(mk, "rowsel")
        rsel, nr = mk, nz.cnt
        src_row = lambda r_: nz.pos(r_)
    else:
        rcomps = slice_components(ctx, rk, names=("ra", "rb", "rc"))
        fr, nr, sr = (I(x) for x in pyslice(SInt(nb), *rcomps))
        rsel = slice(*rcomps)
        src_row = lambda r_: fr + r_ * sr
    if ck == "-":
        # no column selector: whole rows
        return rsel, None, nr, src_row, (lambda r_: (z3.IntVal(0), Lb(src_row(r_)), z3.IntVal(1)))
    cse, cstep = ck.split(":")
    ccomps = slice_components(ctx, cse + "N", names=("ca", "cb", "cc"))[:2] + [int(cstep) if int(cstep) != 1 else None]
    col_parts = lambda r_: tuple(I(x) for x in pyslice(SInt(Lb(src_row(r_))), *ccomps))
    return rsel, slice(*ccomps), nr, src_row, col_parts


@register
class GetItemEndToEnd(Family):
    """ra[rowslice, colslice] (every None / integer combination listed in kinds, bounds and steps symbolic) materialised: result row r' has exactly the cells
    row[colslice] of source row rows[rowslice][r'], in order - Python list indexing - and the source is not written."""
    name = "ra[rows, cols] end to end"
    qualname = "npstructures.raggedarray.indexablearray:IndexableArray.__getitem__"
    serves = ["C02", "C06"]
    configs = ["int64"]
    timeout_ms = 60000
    assumed = ["callee contract view.get_flat_indices(): idx[S'(r)+c] = start(r) + c*step over the geometry of the view's lengths (proved: raggedshape.build_indices, RaggedView2._get_flat_indices)",
               "builtin slice rule = spec function pyslice (audited)", "numpy integer-array gather"]

    def kinds(self):
        return [f"{r}|{c}" for r in ROW_KINDS for c in COL_KINDS] + [f"{r}|{c}" for r in ("A", "M") for c in ("NN:1", "SS:1", "SS:-1", "NN:2", "-")] + \
               [f"{r}|-" for r in ("SSS", "NNS")]

    def extra_functions(self):
        return ["IndexableArray._get_row_subset", "IndexableArray._get_row_col_subset", "RaggedShape.view_rows", "RaggedShape.view", "RaggedView2.col_slice",
                "RaggedView2._pos_col_slice", "RaggedView2._calculate_lengths", "RaggedBase.ravel", "RaggedBase._flatten_myself", "ViewBase._index_rows"]

    def receiver(self, ctx, g, kind):
        return g.ra, {}

    def _chain(self, ctx, st, call, r, c, tag="post"):
        """the composition for result row r / cell c (skolem constants in `run`, the witness of a failing bounds check in `late_lemmas`)"""
        g, src_row, col_parts, nr = st["g"], st["src_row"], st["col_parts"], st["nr"]
        nb = st.get("nb", g.n)
        Lb = st.get("Lb", g.L)
        addr = st.get("addr", lambda i, k: g.S(i) + k)            # flat address (in the source buffer) of cell k of receiver row i
        factor = st.get("step_factor", 1)                          # column step of the receiver itself (a lazily column-sliced receiver)
        extra = st.get("extra_pool", lambda i: [i, i + 1])
        osh = call["shape"]
        rho = src_row(r)
        fc, nc, sc = col_parts(r)
        kind_ = "post" if tag == "post" else "lemma"
        ctx.prove_then_assume(f"{tag}.lemma: the selected receiver row exists", z3.Implies(z3.And(0 <= r, r < nr), z3.And(0 <= rho, rho < nb)), pool=[r, rho, rho + 1, nb], kind=kind_)
        ctx.prove_then_assume(f"{tag}.row r' has len(row[colslice]) cells; the view addresses them from the row's first selected cell with the (compounded) column step",
                              z3.Implies(z3.And(0 <= r, r < nr), z3.And(osh.L(r) == nc, z3.Implies(nc > 0, call["starts"](r) == addr(rho, fc)), call["step"] == sc * factor)),
                              pool=[r, rho, rho + 1] + extra(rho), kind=kind_)
        ctx.prove_then_assume(f"{tag}.lemma: the selected column exists in the receiver row",
                              z3.Implies(z3.And(0 <= r, r < nr, 0 <= c, c < nc), z3.And(0 <= fc + c * sc, fc + c * sc < Lb(rho))), pool=[r, rho, rho + 1, c], kind=kind_)
        return rho, fc, nc, sc

    def late_lemmas(self, ctx, kind, exc):
        """the gather data[idx] of the materialisation cannot go out of bounds: every address is a cell of the source"""
        st = ctx.ghost.get("st")
        if st is None or not isinstance(exc, IndexError) or not st.get("calls") or not ctx.ghost.get("forall_facts"):
            return
        call = st["calls"][-1]
        w = ctx.ghost["forall_facts"][-1]["w"]
        osh = call["shape"]
        # name the row / column of the failing flat position (plain constants keep the products with symbolic steps as easy as in the main proof)
        r, c = z3.Int("late_r"), z3.Int("late_c")
        ctx.assume(z3.And(r == call["rowof"](w), c == w - osh.S(r)))
        g = st["g"]
        ctx.prove_then_assume("late.lemma: the view has len(rows[rowslice]) rows", call["n"] == st["nr"], kind="lemma")
        ctx.prove_then_assume("late.lemma: the flat position of the failing address lies in a row of the view", z3.And(0 <= r, r < st["nr"], 0 <= c, c < osh.L(r)), pool=[w, r, r + 1], kind="lemma")
        rho, fc, nc, sc = self._chain(ctx, st, call, r, c, tag="late")
        ctx.prove_then_assume("late.lemma: the index bounds check of the gather cannot fail", z3.BoolVal(False), kind="lemma",
                              pool=[w, r, c, rho, rho + 1, g.n, z3.IntVal(0)] + st.get("extra_pool", lambda i: [])(rho))

    def run(self, ctx, kind):
        rk, ck = kind.split("|")[-2:]
        g = sym_ragged(ctx)
        ctx.ghost["g"] = g
        n, S, L, D = g.n, g.S, g.L, g.D.fn
        recv, extra_st = self.receiver(ctx, g, kind)
        rs, cs, nr, src_row, col_parts = selection_spec(ctx, g, rk, ck, extra_st.get("nb"), extra_st.get("Lb"))
        cls, old, calls = stub_flat_indices(ctx)
        st = {"g": g, "src_row": src_row, "col_parts": col_parts, "nr": nr, "calls": calls}
        st.update(extra_st)
        ctx.ghost["st"] = st
        try:
            out = recv[rs, cs] if cs is not None else recv[rs]
            flat = out.ravel()
        finally:
            cls.get_flat_indices = old
        if not calls:
            ctx.prove("post.materialised through get_flat_indices", z3.BoolVal(False))
            return
        call = calls[-1]
        osh = call["shape"]
        ctx.prove("post.number of rows == len(rows[rowslice])", z3.And(I(out._shape.n_rows) == nr, z3.BoolVal(out._shape is osh.obj)))
        r = z3.Int("rp")
        c = z3.Int("cp")
        ctx.skolem(z3.And(0 <= r, r < nr))
        ctx.declare_inputs(c)
        rho, fc, nc, sc = self._chain(ctx, st, call, r, c)
        ctx.skolem(z3.And(0 <= c, c < nc))
        addr = st.get("addr", lambda i, k: S(i) + k)
        ctx.prove("post.cell c' of row r' is cell colslice[c'] of source row rowslice[r']  (list indexing)",
                  flat.get(osh.S(r) + c) == D(addr(rho, fc + c * sc)), pool=[r, c, rho, rho + 1, n] + st.get("extra_pool", lambda i: [])(rho),
                  without=["flat.S.mono", "sh.S.mono"])
        ctx.prove("post.source not written, result in a fresh buffer", z3.BoolVal(g.D.buf.writes == 0 and flat.buf is not g.D.buf))

    def concretise(self, kind, model, ghost):
        g = ghost["g"]
        n = min(max(model_int(model, g.n), 0), 5)
        rk, ck = kind.split("|")[-2:]

        def ms(k, names):
            out = []
            for ch, nm in zip(k, names):
                out.append(None if ch == "N" else model_int(model, z3.Int(nm)))
            return out
        if rk in ("A", "M"):
            rows = {"A": {"index": [n - 1, 0, -1, 0][: (4 if n else 0)]}, "M": {"mask": [i % 2 == 0 for i in range(n)]}}[rk]
        else:
            rows = ms(rk, ("ra", "rb", "rc"))
            if rows[2] == 0:
                rows[2] = 1
        if ck == "-":
            cols = None
        else:
            cse, cstep = ck.split(":")
            cols = ms(cse, ("ca", "cb")) + [int(cstep)]
        return {"lengths": [min(max(model_int(model, g.L(z3.IntVal(r))), 0), 4) for r in range(n)], "rows": rows, "cols": cols}

    def concrete(self, case):
        from npstructures import RaggedArray
        ls = case["lengths"]
        rows, v = [], 10
        for l in ls:
            rows.append(list(range(v, v + l)))
            v += l
        ra = RaggedArray(np.arange(10, 10 + sum(ls)), ls)
        rs, pick, cs = decode_selectors(case, len(ls))
        try:
            got = (ra[rs, cs] if cs is not None else ra[rs]).tolist()
        except Exception as e:
            return {"msg": f"ra[{rs}, {cs}] on rows {rows} raised {type(e).__name__}: {e}", "sig": "raised:e2e-getitem"}
        exp = [row[cs] if cs is not None else row for row in pick(rows)]
        if got != exp:
            return {"msg": f"ra[{rs}, {cs}] on rows {rows}: {got}, list indexing gives {exp}", "sig": "wrong:e2e-getitem"}

    def bounded_cases(self, tier, seed):
        for ls in ([3], [2, 0, 3], [0, 4], [1, 1, 1], [2, 1, 3, 2]):
            for rws in ([None, None, None], [1, None, None], [None, None, -1], [0, 5, 2]):
                for cls_ in ([None, None, None], [1, None, None], [None, -1, None], [None, None, -1], [None, None, 2], [-2, None, None], [3, 0, -1]):
                    yield {"lengths": ls, "rows": rws, "cols": cls_}
            n_ = len(ls)
            perm = {"index": [0] + list(range(n_ - 2, 0, -1)) + [n_ - 1]} if n_ >= 3 else {"index": [0] * n_}
            for rws in ({"index": [n_ - 1, 0, -1]}, {"index": []}, perm, {"index": [0] + [-1] * 3}, {"mask": [i % 2 == 1 for i in range(n_)]}, {"mask": [True] * n_}):
                for cls_ in (None, [None, None, -1], [1, None, 2]):
                    yield {"lengths": ls, "rows": rws, "cols": cls_}

    def nontrivial(self, case):
        return 0 in case["lengths"]


@register
class SetItemEndToEnd(GetItemEndToEnd):
    """ra[rowslice, colslice] = scalar on a contiguous array: exactly the cells that list indexing selects get the value, every other cell of the
    buffer keeps its old value (frame), the geometry is unchanged."""
    name = "ra[rows, cols] = v end to end"
    qualname = "npstructures.raggedarray.indexablearray:IndexableArray.__setitem__"
    serves = ["C03"]
    configs = ["int64"]
    timeout_ms = 60000
    assumed = GetItemEndToEnd.assumed + ["numpy fancy assignment (witness form)"]

    def extra_functions(self):
        return ["IndexableArray._get_row_subset", "IndexableArray._get_row_col_subset", "RaggedShape.view_rows", "RaggedView2.col_slice", "RaggedBase._set_data_range"]

    def late_lemmas(self, ctx, kind, exc):
        GetItemEndToEnd.late_lemmas(self, ctx, kind, exc)

    def run(self, ctx, kind):
        from ..sym.arr import SElem, ElemSort
        rk, ck = kind.split("|")
        g = sym_ragged(ctx)
        ctx.ghost["g"] = g
        n, S, L = g.n, g.S, g.L
        D0 = g.D.snapshot()
        rs, cs, nr, src_row, col_parts = selection_spec(ctx, g, rk, ck)
        cls, old, calls = stub_flat_indices(ctx)
        st = {"g": g, "src_row": src_row, "col_parts": col_parts, "nr": nr, "calls": calls}
        ctx.ghost["st"] = st
        v = z3.Const("v", ElemSort)
        try:
            if cs is None:
                g.ra[rs] = SElem(v)
            else:
                g.ra[rs, cs] = SElem(v)
        finally:
            cls.get_flat_indices = old
        if not calls:
            ctx.prove("post.addresses come from get_flat_indices", z3.BoolVal(False))
            return
        call = calls[-1]
        osh = call["shape"]
        D1 = g.D.fn if False else g.D.snapshot()
        ctx.prove("post.geometry unchanged, one buffer written", z3.BoolVal(g.ra._shape is g.obj and g.D.buf.writes == 1))
        r, c = z3.Int("rp"), z3.Int("cp")
        ctx.skolem(z3.And(0 <= r, r < nr))
        ctx.declare_inputs(c)
        rho, fc, nc, sc = self._chain(ctx, st, call, r, c)
        ctx.skolem(z3.And(0 <= c, c < nc))
        sc_ = ctx.ghost["scatters"][-1]
        t = osh.S(r) + c
        ctx.prove("post.every selected cell gets the value", D1(S(rho) + fc + c * sc) == v, pool=[r, r + 1, c, rho, rho + 1, n, t, osh.n])
        # frame: a cell that list indexing does not select keeps its value
        r0, c0 = z3.Int("r0"), z3.Int("c0")
        ctx.skolem(z3.And(0 <= r0, r0 < n, 0 <= c0, c0 < L(r0)))
        p = S(r0) + c0
        j = sc_["wit"](p)
        rj = call["rowof"](j)
        cj = j - osh.S(rj)
        ctx.assume_forall("(r0, c0) is not selected", lambda r_, c_: z3.Implies(
            z3.And(0 <= r_, r_ < nr, 0 <= c_, c_ < col_parts(r_)[1]), z3.Not(z3.And(src_row(r_) == r0, col_parts(r_)[0] + c_ * col_parts(r_)[2] == c0))), arity=2)
        # if the scatter had written p, its witness would be a selected cell with the same flat address, hence the same (row, column)
        rho_j = src_row(rj)
        ctx.prove_then_assume("frame.lemma: the view has len(rows[rowslice]) rows", call["n"] == nr, live=[r0, c0])
        hit = sc_["hit"](p)
        ctx.prove_then_assume("frame.lemma: a writer of p would be a cell (rj, cj) of the view", z3.Implies(hit, z3.And(0 <= rj, rj < nr, 0 <= cj, cj < osh.L(rj))),
                              pool=[j, rj, rj + 1, p], live=[r0, c0])
        rho2, fc2, nc2, sc2 = self._chain(ctx, st, call, rj, cj, tag="frame")
        ctx.prove_then_assume("frame.lemma: ... with source address S(row) + column, so row and column are (r0, c0)",
                              z3.Implies(hit, z3.And(rho2 == r0, fc2 + cj * sc2 == c0)), pool=[j, rj, cj, rho2, rho2 + 1, r0, r0 + 1, p, n], live=[r0, c0])
        ctx.prove("post.every other cell keeps its value", D1(p) == D0(p), pool=[r0, c0, rj, cj, p], live=[r0, c0])

    def concrete(self, case):
        from npstructures import RaggedArray
        ls = case["lengths"]
        rows, v = [], 10
        for l in ls:
            rows.append(list(range(v, v + l)))
            v += l
        ra = RaggedArray(np.arange(10, 10 + sum(ls)), ls)
        rs, pick, cs = decode_selectors(case, len(ls))
        try:
            if cs is None:
                ra[rs] = -5
            else:
                ra[rs, cs] = -5
        except Exception as e:
            return {"msg": f"ra[{rs}, {cs}] = -5 on rows {rows} raised {type(e).__name__}: {e}", "sig": "raised:e2e-setitem"}
        exp = [list(r) for r in rows]
        for i in pick(list(range(len(exp)))):
            for jx in (range(len(exp[i]))[cs] if cs is not None else range(len(exp[i]))):
                exp[i][jx] = -5
        if ra.tolist() != exp:
            return {"msg": f"ra[{rs}, {cs}] = -5 on rows {rows}: {ra.tolist()}, list assignment gives {exp}", "sig": "wrong:e2e-setitem"}


@register
class LazyGetItemEndToEnd(GetItemEndToEnd):
    """C06: the same end-to-end statement when the receiver is itself a lazy selection of an array (never materialised before):
    x = ra[a::2] / ra[::-1] (rows) or x = ra[:, 1:] / ra[:, ::-1] (columns, a RaggedView2 whose column step compounds with the second one);
    x[rowslice, colslice] equals list indexing of x's rows, and the source is not written."""
    name = "x[rows, cols] end to end, x a lazy selection"
    qualname = "npstructures.raggedarray.indexablearray:IndexableArray.__getitem__"
    serves = ["C06"]
    configs = ["int64"]
    timeout_ms = 60000

    def kinds(self):
        return [f"{rv}|{r}|{c}" for rv in ("rows a::2", "rows ::-1", "cols 1:", "cols ::-1") for r in ("SSS", "NNN") for c in ("SS:1", "SS:-1", "NN:2")]

    def receiver(self, ctx, g, kind):
        rv = kind.split("|")[0]
        n, S, L = g.n, g.S, g.L
        if rv.startswith("rows"):
            if rv == "rows a::2":
                a = z3.Int("pa")
                ctx.declare_inputs(a)
                sel = slice(SInt(a), None, 2)
                f, cnt, stp = (I(x) for x in pyslice(SInt(n), SInt(a), None, 2))
            else:
                sel = slice(None, None, -1)
                f, cnt, stp = (I(x) for x in pyslice(SInt(n), None, None, -1))
            row = lambda i: f + i * stp
            return g.ra[sel], {"nb": cnt, "Lb": lambda i: L(row(i)), "addr": lambda i, k: S(row(i)) + k, "extra_pool": lambda i: [row(i), row(i) + 1]}
        if rv == "cols 1:":
            sel, parts = slice(1, None), (lambda i: tuple(I(x) for x in pyslice(SInt(L(i)), 1, None, None)))
        else:
            sel, parts = slice(None, None, -1), (lambda i: tuple(I(x) for x in pyslice(SInt(L(i)), None, None, -1)))
        fac = 1 if rv == "cols 1:" else -1
        return g.ra[:, sel], {"nb": n, "Lb": lambda i: parts(i)[1], "addr": lambda i, k: S(i) + parts(i)[0] + k * fac, "step_factor": fac}

    def concrete(self, case):
        from npstructures import RaggedArray
        ls = case["lengths"]
        rows, v = [], 10
        for l in ls:
            rows.append(list(range(v, v + l)))
            v += l
        rs, pick, cs = decode_selectors(case, len(ls))
        if not isinstance(rs, slice) or cs is None:
            return None
        for nm, mk, ml in (("ra[1::2]", lambda x: x[1::2], lambda x: x[1::2]), ("ra[::-1]", lambda x: x[::-1], lambda x: x[::-1]),
                           ("ra[:, 1:]", lambda x: x[:, 1:], lambda x: [r[1:] for r in x]), ("ra[:, ::-1]", lambda x: x[:, ::-1], lambda x: [r[::-1] for r in x])):
            ra = RaggedArray(np.arange(10, 10 + sum(ls)), ls)
            try:
                got = mk(ra)[rs, cs].tolist()
            except Exception as e:
                return {"msg": f"{nm}[{rs}, {cs}] on rows {rows} raised {type(e).__name__}: {e}", "sig": "raised:e2e-lazy-getitem"}
            exp = [row[cs] for row in ml(rows)[rs]]
            if got != exp:
                return {"msg": f"{nm}[{rs}, {cs}] on rows {rows}: {got}, list indexing gives {exp}", "sig": "wrong:e2e-lazy-getitem"}


@register
class ScalarIndexEndToEnd(Family):
    """The integer forms of indexing, end to end on a contiguous array, for indices that exist (the refusal of indices that do not exist is proved
    in _get_element / col_slice[int] / _index_rows):  ra[i, j] is the cell (negative i, j count from the end);  ra[i] is row i as a 1-D array;
    ra[i, a:b:-1] is row[a:b:-1];  ra[a::2, j] is [row[j] for row in rows[a::2]]."""
    name = "integer indexing end to end"
    qualname = "npstructures.raggedarray.indexablearray:IndexableArray.__getitem__"
    serves = ["C02", "C06"]
    configs = ["int64"]
    timeout_ms = 60000
    assumed = GetItemEndToEnd.assumed

    def kinds(self):
        return ["ra[i, j]", "ra[i]", "ra[i, a:b:-1]", "ra[i, a:b:2]", "ra[a::2, j]", "ra[::-1, j]"]

    def extra_functions(self):
        return ["IndexableArray._get_row_subset", "IndexableArray._get_row_col_subset", "IndexableArray._get_element", "IndexableArray._get_row",
                "RaggedShape.view_rows", "RaggedShape.view", "RaggedView2.col_slice", "RaggedBase._get_data_range"]

    def late_lemmas(self, ctx, kind, exc):
        st = ctx.ghost.get("st")
        if st is None or not isinstance(exc, IndexError):
            return
        g = st["g"]
        ffs = ctx.ghost.get("forall_facts", [])
        calls = st.get("calls") or []
        pool = list(st.get("pool", []))
        if ffs:
            w = ffs[-1]["w"]
            pool += [w, w + 1]
            if calls:
                call = calls[-1]
                rr = call["rowof"](w)
                pool += [rr, rr + 1, w - call["shape"].S(rr)] + st["row_pool"](rr)
        ctx.prove_then_assume("late.lemma: no bounds check fails for indices that exist", z3.BoolVal(False), pool=pool + [g.n, z3.IntVal(0)], kind="lemma")

    def run(self, ctx, kind):
        g = sym_ragged(ctx)
        n, S, L, D = g.n, g.S, g.L, g.D.fn
        i, j = z3.Int("i"), z3.Int("j")
        ctx.declare_inputs(i, j)
        wrapn = lambda t, m: z3.If(t < 0, t + m, t)
        cls, old, calls = stub_flat_indices(ctx)
        st = {"g": g, "calls": calls, "pool": [], "row_pool": lambda r_: []}
        ctx.ghost["st"] = st
        ctx.ghost["g"] = g
        try:
            if kind in ("ra[i, j]", "ra[i]", "ra[i, a:b:-1]", "ra[i, a:b:2]"):
                ctx.assume(z3.And(-n <= i, i < n))
                row = wrapn(i, n)
                st["pool"] = [row, row + 1, i, j]
                if kind == "ra[i, j]":
                    ctx.assume(z3.And(-L(row) <= j, j < L(row)))
                    out = g.ra[SInt(i), SInt(j)]
                    ctx.prove("post.ra[i, j] is cell j of row i (negative indices from the end)", out.t == D(S(row) + wrapn(j, L(row))), pool=[row, row + 1])
                elif kind == "ra[i]":
                    out = g.ra[SInt(i)]
                    c = z3.Int("c")
                    ctx.prove("post.ra[i] has the length of row i", dim_term(out.shape_[0]) == L(row), pool=[row, row + 1])
                    ctx.skolem(z3.And(0 <= c, c < L(row)))
                    ctx.prove("post.ra[i][c] is cell c of row i", out.get(c) == D(S(row) + c), pool=[row, row + 1, c])
                else:
                    stp = -1 if kind.endswith("-1]") else 2
                    ca, cb = SInt(z3.Int("ca")), SInt(z3.Int("cb"))
                    ctx.declare_inputs(ca, cb)
                    out = g.ra[SInt(i), slice(ca, cb, stp)]
                    fc, nc, sc = (I(x) for x in pyslice(SInt(L(row)), ca, cb, stp))
                    c = z3.Int("c")
                    ctx.prove("post.ra[i, a:b:s] has len(row[a:b:s]) elements", dim_term(out.shape_[0]) == nc, pool=[row, row + 1, z3.IntVal(0), z3.IntVal(1)])
                    ctx.skolem(z3.And(0 <= c, c < nc))
                    ctx.prove("post.ra[i, a:b:s][c] is row[a:b:s][c]", out.get(c) == D(S(row) + fc + c * sc), pool=[row, row + 1, c, z3.IntVal(0), z3.IntVal(1)])
            else:
                if kind == "ra[a::2, j]":
                    a = z3.Int("pa")
                    ctx.declare_inputs(a)
                    sel = slice(SInt(a), None, 2)
                    f, nr, stp = (I(x) for x in pyslice(SInt(n), SInt(a), None, 2))
                else:
                    sel = slice(None, None, -1)
                    f, nr, stp = (I(x) for x in pyslice(SInt(n), None, None, -1))
                src = lambda r_: f + r_ * stp
                ctx.assume_forall("every selected row has column j", lambda r_: z3.Implies(z3.And(0 <= r_, r_ < nr), z3.And(-L(src(r_)) <= j, j < L(src(r_)))))
                st["row_pool"] = lambda r_: [src(r_), src(r_) + 1]
                out = g.ra[sel, SInt(j)]
                call = calls[-1]
                osh = call["shape"]
                # every view row has length 1, so the flat position of view row r is r (prefix sums of ones: induction)
                k = z3.Int("k")
                ctx.prove("lemma.base: S'(0) == 0", osh.S(0) == 0, pool=[z3.IntVal(0)], kind="lemma")
                ctx.prove("lemma.step: S'(k) == k => S'(k+1) == k+1 (one cell per selected row)", z3.Implies(z3.And(0 <= k, k < nr, osh.S(k) == k), osh.S(k + 1) == k + 1),
                          pool=[k, k + 1, src(k), src(k) + 1], kind="lemma")
                ctx.assume_forall("S'(k) == k (by induction)", lambda k_: z3.Implies(z3.And(0 <= k_, k_ <= nr), osh.S(k_) == k_))
                ctx.prove("post.one element per selected row", dim_term(out.shape_[0]) == nr, pool=[nr, osh.n])
                r = z3.Int("rp")
                ctx.skolem(z3.And(0 <= r, r < nr))
                rho = src(r)
                ctx.prove("post.element r' is cell j of row rows[rowslice][r']", out.get(r) == D(S(rho) + wrapn(j, L(rho))), pool=[r, r + 1, rho, rho + 1, z3.IntVal(0)])
        finally:
            cls.get_flat_indices = old
        ctx.prove("post.source not written", z3.BoolVal(g.D.buf.writes == 0))

    def concrete(self, case):
        from npstructures import RaggedArray
        ls = case["lengths"]
        rows, v = [], 10
        for l in ls:
            rows.append(list(range(v, v + l)))
            v += l
        ra = RaggedArray(np.arange(10, 10 + sum(ls)), ls)
        n = len(ls)
        for i in range(-n, n):
            if np.asarray(ra[i]).tolist() != rows[i]:
                return {"msg": f"ra[{i}] on rows {rows}: {np.asarray(ra[i]).tolist()}", "sig": "wrong:e2e-int-row"}
            for j in range(-len(rows[i]), len(rows[i])):
                if ra[i, j] != rows[i][j]:
                    return {"msg": f"ra[{i}, {j}] on rows {rows}: {ra[i, j]}", "sig": "wrong:e2e-element"}
            for sl in (slice(None, None, -1), slice(1, None, 2), slice(-1, 0, -1)):
                if np.asarray(ra[i, sl]).tolist() != rows[i][sl]:
                    return {"msg": f"ra[{i}, {sl}] on rows {rows}: {np.asarray(ra[i, sl]).tolist()}", "sig": "wrong:e2e-int-row-slice"}
        m = min(ls) if ls else 0
        for j in range(-m, m):
            for sl in (slice(None, None, -1), slice(1, None, 2)):
                if np.asarray(ra[sl, j]).tolist() != [r[j] for r in rows[sl]]:
                    return {"msg": f"ra[{sl}, {j}] on rows {rows}: {np.asarray(ra[sl, j]).tolist()}", "sig": "wrong:e2e-int-col"}

    def concretise(self, kind, model, ghost):
        return {"lengths": [2, 3, 1]}

    def bounded_cases(self, tier, seed):
        for ls in ([3], [2, 1, 3], [1, 4], [2, 2, 2]):
            yield {"lengths": ls}


@register
class ScalarAssignEndToEnd(Family):
    """The integer forms of assignment with a scalar value, end to end, for indices that exist: ra[i, j] = v changes exactly that cell; ra[i] = v exactly
    the cells of row i; ra[a::2, j] = v exactly cell j of every selected row; every other cell of the buffer keeps its value."""
    name = "integer assignment end to end"
    qualname = "npstructures.raggedarray.indexablearray:IndexableArray.__setitem__"
    serves = ["C03"]
    configs = ["int64"]
    timeout_ms = 60000
    assumed = SetItemEndToEnd.assumed

    def kinds(self):
        return ["ra[i, j] = v", "ra[i] = v", "ra[a::2, j] = v"]

    def extra_functions(self):
        return ["IndexableArray._get_row_subset", "IndexableArray._get_row_col_subset", "IndexableArray._get_element", "IndexableArray._get_row",
                "RaggedShape.view_rows", "RaggedView2.col_slice", "RaggedBase._set_data_range"]

    late_lemmas = ScalarIndexEndToEnd.late_lemmas

    def run(self, ctx, kind):
        from ..sym.arr import SElem, ElemSort
        g = sym_ragged(ctx)
        n, S, L = g.n, g.S, g.L
        D0 = g.D.snapshot()
        i, j = z3.Int("i"), z3.Int("j")
        ctx.declare_inputs(i, j)
        v = z3.Const("v", ElemSort)
        wrapn = lambda t, m: z3.If(t < 0, t + m, t)
        cls, old, calls = stub_flat_indices(ctx)
        st = {"g": g, "calls": calls, "pool": [], "row_pool": lambda r_: []}
        ctx.ghost["st"], ctx.ghost["g"] = st, g
        r0, c0 = z3.Int("r0"), z3.Int("c0")
        try:
            if kind != "ra[a::2, j] = v":
                ctx.assume(z3.And(-n <= i, i < n))
                row = wrapn(i, n)
                st["pool"] = [row, row + 1, i, j]
                if kind == "ra[i, j] = v":
                    ctx.assume(z3.And(-L(row) <= j, j < L(row)))
                    g.ra[SInt(i), SInt(j)] = SElem(v)
                    selected = lambda r_, c_: z3.And(r_ == row, c_ == wrapn(j, L(row)))
                else:
                    g.ra[SInt(i)] = SElem(v)
                    selected = lambda r_, c_: r_ == row
                D1 = g.D.snapshot()
                ctx.skolem(z3.And(0 <= r0, r0 < n, 0 <= c0, c0 < L(r0)))
                p = S(r0) + c0
                ctx.prove("post.the addressed cells get the value, every other cell keeps its value", D1(p) == z3.If(selected(r0, c0), v, D0(p)),
                          pool=[r0, r0 + 1, c0, row, row + 1, p])
            else:
                a = z3.Int("pa")
                ctx.declare_inputs(a)
                f, nr, stp = (I(x) for x in pyslice(SInt(n), SInt(a), None, 2))
                src = lambda r_: f + r_ * stp
                ctx.assume_forall("every selected row has column j", lambda r_: z3.Implies(z3.And(0 <= r_, r_ < nr), z3.And(-L(src(r_)) <= j, j < L(src(r_)))))
                st["row_pool"] = lambda r_: [src(r_), src(r_) + 1]
                g.ra[slice(SInt(a), None, 2), SInt(j)] = SElem(v)
                D1 = g.D.snapshot()
                call = calls[-1]
                osh = call["shape"]
                sc_ = ctx.ghost["scatters"][-1]
                r = z3.Int("rp")
                ctx.skolem(z3.And(0 <= r, r < nr))
                rho = src(r)
                t = osh.S(r)
                ctx.prove("post.cell j of every selected row gets the value", D1(S(rho) + wrapn(j, L(rho))) == v, pool=[r, r + 1, rho, rho + 1, t, osh.n, nr, z3.IntVal(0)])
                ctx.skolem(z3.And(0 <= r0, r0 < n, 0 <= c0, c0 < L(r0)))
                p = S(r0) + c0
                ctx.assume_forall("(r0, c0) is not selected", lambda r_: z3.Implies(z3.And(0 <= r_, r_ < nr), z3.Not(z3.And(src(r_) == r0, wrapn(j, L(src(r_))) == c0))))
                w = sc_["wit"](p)
                rw = call["rowof"](w)
                ctx.prove("post.every other cell keeps its value", D1(p) == D0(p),
                          pool=[r0, r0 + 1, c0, p, w, rw, rw + 1, w - osh.S(rw), src(rw), src(rw) + 1, n, nr, z3.IntVal(0)], live=[r0, c0])
        finally:
            cls.get_flat_indices = old
        ctx.prove("post.geometry unchanged", z3.BoolVal(g.ra._shape is g.obj))

    def concrete(self, case):
        from npstructures import RaggedArray
        ls = case["lengths"]
        rows, v = [], 10
        for l in ls:
            rows.append(list(range(v, v + l)))
            v += l
        n = len(ls)

        def fresh():
            return RaggedArray(np.arange(10, 10 + sum(ls)), ls), [list(r) for r in rows]
        for i in range(-n, n):
            ra, exp = fresh()
            ra[i] = -5
            exp[i] = [-5] * len(exp[i])
            if ra.tolist() != exp:
                return {"msg": f"ra[{i}] = -5 on rows {rows}: {ra.tolist()}", "sig": "wrong:e2e-assign-row"}
            for j in range(-len(rows[i]), len(rows[i])):
                ra, exp = fresh()
                ra[i, j] = -5
                exp[i][j] = -5
                if ra.tolist() != exp:
                    return {"msg": f"ra[{i}, {j}] = -5 on rows {rows}: {ra.tolist()}", "sig": "wrong:e2e-assign-cell"}
        m = min(ls) if ls else 0
        for j in range(-m, m):
            ra, exp = fresh()
            ra[1::2, j] = -5
            for r in exp[1::2]:
                r[j] = -5
            if ra.tolist() != exp:
                return {"msg": f"ra[1::2, {j}] = -5 on rows {rows}: {ra.tolist()}", "sig": "wrong:e2e-assign-col"}

    def concretise(self, kind, model, ghost):
        return {"lengths": [2, 3, 1]}

    def bounded_cases(self, tier, seed):
        for ls in ([3], [2, 1, 3], [1, 4], [2, 2, 2]):
            yield {"lengths": ls}


@register
class LazyScalarIndexEndToEnd(Family):
    """C06: integer indexing of a lazily selected, never materialised array x (x = ra[:, ::-1], ra[:, 1:], ra[::-1], ra[a::2]):
    x[i] is row i of x as a 1-D array and x[i, j] its cell j (negative indices from the end) - what a freshly built array with x's rows gives."""
    name = "x[i] / x[i, j] end to end, x a lazy selection"
    qualname = "npstructures.raggedarray.indexablearray:IndexableArray.__getitem__"
    serves = ["C06"]
    configs = ["int64"]
    timeout_ms = 60000
    assumed = GetItemEndToEnd.assumed

    def kinds(self):
        return [f"{rv}|{f}" for rv in ("rows a::2", "rows ::-1", "cols 1:", "cols ::-1") for f in ("x[i]", "x[i, j]")]

    def extra_functions(self):
        return ["IndexableArray._get_row", "IndexableArray._get_element", "RaggedBase.ravel", "RaggedBase._flatten_myself"]

    def late_lemmas(self, ctx, kind, exc):
        st = ctx.ghost.get("st")
        if st is None or not isinstance(exc, IndexError) or not st.get("calls"):
            return
        call = st["calls"][-1]
        osh = call["shape"]
        ffs = ctx.ghost.get("forall_facts", [])
        pool = list(st.get("pool", [])) + [st["g"].n, z3.IntVal(0)]
        if "row" in st:
            row = st["row"]
            ctx.prove_then_assume("late.lemma: the materialised geometry has x's rows", z3.And(osh.n == st["nb"], osh.L(row) == st["Lb"](row)),
                                  pool=[row, row + 1, st["nb"], z3.IntVal(0)] + st["row_pool"](row), kind="lemma")
        if ffs:
            w = ffs[-1]["w"]
            r, c = z3.Int("late_r"), z3.Int("late_c")
            ctx.assume(z3.And(r == call["rowof"](w), c == w - osh.S(r)))
            pool += [w, r, r + 1, c] + st["row_pool"](r)
        ctx.prove_then_assume("late.lemma: no bounds check fails for indices that exist", z3.BoolVal(False), pool=pool, kind="lemma")

    def run(self, ctx, kind):
        rv, form = kind.split("|")
        g = sym_ragged(ctx)
        n, S, L, D = g.n, g.S, g.L, g.D.fn
        recv, ex = LazyGetItemEndToEnd.receiver(self, ctx, g, rv + "|NNN|NN:1")
        nb, Lb, addr = ex["nb"], ex["Lb"], ex["addr"]
        row_pool = ex.get("extra_pool", lambda i_: [i_, i_ + 1])
        i, j = z3.Int("i"), z3.Int("j")
        ctx.declare_inputs(i, j)
        wrapn = lambda t, m: z3.If(t < 0, t + m, t)
        ctx.assume(z3.And(-nb <= i, i < nb))
        row = wrapn(i, nb)
        cls, old, calls = stub_flat_indices(ctx)
        st = {"g": g, "calls": calls, "pool": [row, row + 1, i, j] + row_pool(row), "row_pool": row_pool, "nb": nb, "Lb": Lb, "row": row}
        ctx.ghost["st"], ctx.ghost["g"] = st, g
        try:
            if form == "x[i]":
                out = recv[SInt(i)]
            else:
                ctx.assume(z3.And(-Lb(row) <= j, j < Lb(row)))
                out = recv[SInt(i), SInt(j)]
        finally:
            cls.get_flat_indices = old
        call = calls[-1]
        osh = call["shape"]
        base = [row, row + 1, nb, z3.IntVal(0)] + row_pool(row)
        ctx.prove_then_assume("post.lemma: the materialised geometry has x's rows", z3.And(osh.n == nb, osh.L(row) == Lb(row)), pool=base)
        if form == "x[i]":
            c = z3.Int("c")
            ctx.prove("post.x[i] has the length of row i of x", dim_term(out.shape_[0]) == Lb(row), pool=base)
            ctx.skolem(z3.And(0 <= c, c < Lb(row)))
            ctx.prove("post.x[i][c] is cell c of row i of x", out.get(c) == D(addr(row, c)), pool=base + [c, osh.S(row) + c])
        else:
            cj = wrapn(j, Lb(row))
            ctx.prove("post.x[i, j] is cell j of row i of x (negative indices from the end)", out.t == D(addr(row, cj)), pool=base + [cj, osh.S(row) + cj])
        ctx.prove("post.source not written", z3.BoolVal(g.D.buf.writes == 0))

    def concrete(self, case):
        from npstructures import RaggedArray
        ls = case["lengths"]
        rows, v = [], 10
        for l in ls:
            rows.append(list(range(v, v + l)))
            v += l
        for nm, mk, ml in (("ra[1::2]", lambda x: x[1::2], lambda x: x[1::2]), ("ra[::-1]", lambda x: x[::-1], lambda x: x[::-1]),
                           ("ra[:, 1:]", lambda x: x[:, 1:], lambda x: [r[1:] for r in x]), ("ra[:, ::-1]", lambda x: x[:, ::-1], lambda x: [r[::-1] for r in x])):
            exp = ml(rows)
            for i in range(-len(exp), len(exp)):
                x = mk(RaggedArray(np.arange(10, 10 + sum(ls)), ls))
                if np.asarray(x[i]).tolist() != exp[i]:
                    return {"msg": f"{nm}[{i}] on rows {rows}: {np.asarray(x[i]).tolist()}, expected {exp[i]}", "sig": "wrong:e2e-lazy-int-row"}
                for j in range(-len(exp[i]), len(exp[i])):
                    x = mk(RaggedArray(np.arange(10, 10 + sum(ls)), ls))
                    if x[i, j] != exp[i][j]:
                        return {"msg": f"{nm}[{i}, {j}] on rows {rows}: {x[i, j]}, expected {exp[i][j]}", "sig": "wrong:e2e-lazy-element"}

    def concretise(self, kind, model, ghost):
        return {"lengths": [3, 2, 4]}

    def bounded_cases(self, tier, seed):
        for ls in ([3], [2, 1, 3], [1, 4], [2, 2, 2], [3, 0, 2]):
            yield {"lengths": ls}
