"""C07: row-wise cumulative sums restart at every row.

Spec.  With PS_D the prefix sums of the flat data (PS_D(0)=0, PS_D(k+1)=PS_D(k)+D[k]), the sum of a row segment is
by definition  Seg(s, e) = PS_D(e) - PS_D(s);  numpy.cumsum of row r at column c is Seg(S(r), S(r)+c+1).
Contract of RaggedArray.cumsum(axis=-1):  cell'(r, c) = PS_D(S(r)+c+1) - PS_D(S(r)),  same row lengths.
Integer data are mathematical integers here (no overflow: assumption, listed).
The subtraction of the per-row offset column goes through RaggedArray.__array_ufunc__ (contract of C04, proved in
vf.proofs.ufunc) and RaggedArray._broadcast_rows (replaced by its contract: bounded stand-in)."""
import numpy as np
import z3

from .base import Family, register, model_int
from .ragged import sym_ragged
from .reduce import telescoping
from ..sym.core import SInt, cur
from ..sym.arr import SymArr, I, dim_term
from ..sym.theory import prefix_sum


def stub_broadcast(ctx, g, rec):
    from npstructures import RaggedArray

    def broadcast_stub(self_, values, dtype=None):
        c = cur()
        rec["values"] = values
        col = values
        flat = SymArr.symbolic("bcast", g.S(g.n), "int", np.int64, assume_len=False)
        vsnap = col.snapshot()
        c.assume_forall("broadcast", lambda r, cc: z3.Implies(z3.And(0 <= r, r < g.n, 0 <= cc, cc < g.L(r)),
                                                             flat.fn(g.S(r) + cc) == vsnap(r, 0)), arity=2)
        return RaggedArray(flat, self_._shape)
    old = RaggedArray.__dict__["_broadcast_rows"]
    RaggedArray._broadcast_rows = broadcast_stub
    return RaggedArray, old


@register
class Cumsum(Family):
    name = "RaggedArray.cumsum"
    qualname = "npstructures.raggedarray:RaggedArray.cumsum"
    serves = ["C07"]
    assumed = ["numpy.cumsum = prefix sums", "numpy.insert(a, 0, 0)", "callee contract RaggedArray._broadcast_rows (bounded stand-in)",
               "integer data do not overflow (mathematical integers)"]

    def kinds(self):
        return ["axis=-1", "axis=None"]

    def extra_functions(self):
        return ["util.unsafe_extend_left", "RaggedArray.__array_ufunc__", "RaggedBase.size", "RaggedBase.ravel"]

    def run(self, ctx, kind):
        g = sym_ragged(ctx, kind="int")
        ctx.ghost["g"] = g
        ra = g.ra
        telescoping(ctx, g, ra._shape.lengths)
        psd = prefix_sum(g.D)
        if kind == "axis=None":
            out = ra.cumsum()
            j = z3.Int("j")
            ctx.skolem(z3.And(0 <= j, j < g.S(g.n)))
            ctx.add_index(j, j + 1)
            ctx.prove("post.flat cumulative sum", out.get(j) == psd(j + 1))
            return
        rec = {}
        cls, old = stub_broadcast(ctx, g, rec)
        try:
            out = ra.cumsum(axis=-1)
        finally:
            cls._broadcast_rows = old
        if "values" not in rec:
            ctx.prove("post.empty array: nothing to accumulate", g.S(g.n) == 0)
            return
        # lemma: the prefix sums of E = [0] ++ D are those of D shifted by one (induction; scan invariant of cumsum#1)
        pse = [e for e in ctx.ghost["prefix_sums"] if e["ps"] is not psd][-1]["ps"]
        k = z3.Int("k")
        size = g.S(g.n)
        ctx.prove("lemma.base: PS_E(1) == PS_D(0)", pse(1) == psd(0), pool=[z3.IntVal(0), z3.IntVal(1)])
        ctx.prove("lemma.step: PS_E(k+1)==PS_D(k) => PS_E(k+2)==PS_D(k+1)",
                  z3.Implies(z3.And(0 <= k, k < size, pse(k + 1) == psd(k)), pse(k + 2) == psd(k + 1)), pool=[k, k + 1, k + 2])
        ctx.assume_forall("PS_E(k+1)==PS_D(k) (by induction)", lambda q: z3.Implies(z3.And(0 <= q, q <= size), pse(q + 1) == psd(q)))
        r = g.row()
        c = z3.Int("c")
        ctx.skolem(z3.And(0 <= c, c < g.L(r)))
        p = g.S(r) + c
        ctx.add_index(c, p, p + 1, r + 1)
        ctx.prove("post.same row lengths", z3.And(out._shape.lengths.get(r) == g.L(r), out._shape.starts.get(r) == g.S(r)))
        ctx.prove("post.cell'(r,c) == PS_D(S(r)+c+1) - PS_D(S(r))", out.ravel().get(p) == psd(p + 1) - psd(g.S(r)))
        ctx.prove("post.input not modified", z3.BoolVal(g.D.buf.writes == 0))

    def concretise(self, kind, model, ghost):
        g = ghost["g"]
        n = min(max(model_int(model, g.n), 0), 4)
        return {"lengths": [min(max(model_int(model, g.L(z3.IntVal(r))), 0), 3) for r in range(n)]}

    def concrete(self, case):
        from npstructures import RaggedArray
        ls = case["lengths"]
        rows, v = [], 1
        for l in ls:
            rows.append([(-1) ** (v + i) * (v + i) for i in range(l)])
            v += l
        ra = RaggedArray(np.array([x for r in rows for x in r], dtype=np.int64), ls)
        try:
            got = np.cumsum(ra, axis=-1).tolist()
        except Exception as e:
            return {"msg": f"cumsum on rows {rows} raised {type(e).__name__}: {e}", "sig": "raised:cumsum"}
        exp = [np.cumsum(r).tolist() if r else [] for r in rows]
        if got != exp:
            return {"msg": f"cumsum on rows {rows}: {got}, numpy per row {exp}", "sig": "wrong:cumsum"}

    def bounded_cases(self, tier, seed):
        from ..bounded.common import length_vectors
        for ls in length_vectors(4, 3):
            yield {"lengths": ls}

    def nontrivial(self, case):
        return 0 in case["lengths"]


@register
class RowAccumulate(Family):
    """np.add.accumulate along rows: cm = accumulate(D); offsets[r] = D[S(r)] - cm[S(r)] (0 for an empty trailing row);
    result = cm + offsets[row]   i.e.  cell'(r,c) = PS_D(S(r)+c+1) - PS_D(S(r))  again"""
    name = "RaggedArray._row_accumulate"
    qualname = "npstructures.raggedarray:RaggedArray._row_accumulate"
    serves = ["C07"]
    assumed = ["ufunc.accumulate(add) = prefix sums", "numpy.append(a, 0)", "callee contract RaggedArray._broadcast_rows (bounded stand-in)",
               "integer data do not overflow (mathematical integers)"]

    def kinds(self):
        return ["add"]

    def extra_functions(self):
        return ["util.unsafe_extend_right", "RaggedArray.__array_ufunc__", "RaggedArray._accumulate"]

    def run(self, ctx, kind):
        g = sym_ragged(ctx, kind="int")
        ctx.ghost["g"] = g
        ra = g.ra
        telescoping(ctx, g, ra._shape.lengths)
        psd = prefix_sum(g.D)
        rec = {}
        cls, old = stub_broadcast(ctx, g, rec)
        ctx.add_index(g.n, g.n - 1)
        try:
            out = ra._accumulate(np.add, ra, axis=-1)
        finally:
            cls._broadcast_rows = old
        r = g.row()
        c = z3.Int("c")
        ctx.skolem(z3.And(0 <= c, c < g.L(r)))
        p = g.S(r) + c
        ctx.add_index(c, p, p + 1, r + 1, g.S(r), g.S(r) + 1)
        ctx.prove("post.same row lengths", out._shape.lengths.get(r) == g.L(r))
        ctx.prove("post.cell'(r,c) == PS_D(S(r)+c+1) - PS_D(S(r))", out.ravel().get(p) == psd(p + 1) - psd(g.S(r)))
        ctx.prove("post.input not modified", z3.BoolVal(g.D.buf.writes == 0))

    def concretise(self, kind, model, ghost):
        g = ghost["g"]
        n = min(max(model_int(model, g.n), 0), 4)
        return {"lengths": [min(max(model_int(model, g.L(z3.IntVal(r))), 0), 3) for r in range(n)]}

    def concrete(self, case):
        from npstructures import RaggedArray
        ls = case["lengths"]
        rows, v = [], 1
        for l in ls:
            rows.append([(-1) ** (v + i) * (v + i) for i in range(l)])
            v += l
        ra = RaggedArray(np.array([x for r in rows for x in r], dtype=np.int64), ls)
        for uf in (np.add, np.subtract, np.bitwise_xor):
            try:
                got = uf.accumulate(ra, axis=-1).tolist()
            except Exception as e:
                return {"msg": f"{uf.__name__}.accumulate on rows {rows} raised {type(e).__name__}: {e}", "sig": "raised:accumulate"}
            exp = [uf.accumulate(np.array(r, dtype=np.int64)).tolist() if r else [] for r in rows]
            if got != exp:
                return {"msg": f"{uf.__name__}.accumulate on rows {rows}: {got}, numpy per row {exp}", "sig": "wrong:accumulate"}

    bounded_cases = Cumsum.bounded_cases
    nontrivial = Cumsum.nontrivial
