"""Assumed contracts of numpy primitives with fold semantics, in skolemised / witness form."""
import numpy as _np
import z3

from .core import SInt, SBool, Unsupported, cur, fresh_name
from .arr import (SymArr, I, dim_term, dim_value, same_dim, coerce_term, kind_of_term, wrap_scalar, as_operand,
                  apply_binary, assign_all, check_index_bounds, ElemSort, zero_of, scalar_term, forall_fact,
                  ELEM_CONST, norm_dim)

_PROBE = z3.Int("probe!")


def struct_key(arr):
    """structural identity of a 1-D array value: (term at a generic index, length term).
    The terms are kept alive in the context (z3 recycles the ids of collected ASTs)."""
    t, n = arr.snapshot()(_PROBE), dim_term(arr.shape_[0])
    cur().ghost.setdefault("_alive", []).append((t, n))
    return (t.get_id(), n.get_id())


def _cache(kind):
    return cur().ghost.setdefault("cache_" + kind, {})


def prefix_sum(x):
    """PS with PS(0) = 0 and PS(k+1) = PS(k) + x[k] for 0 <= k < n   (np.cumsum / np.sum contract)"""
    c = cur()
    if x.kind not in ("int", "bool"):
        raise Unsupported("prefix sums over a non-integer element sort")
    key = struct_key(x)
    cache = _cache("ps")
    if key in cache:
        return cache[key]
    ps = z3.Function(fresh_name("PS"), z3.IntSort(), z3.IntSort())
    snap = x.snapshot()
    n = dim_term(x.shape_[0])
    c.assume(ps(0) == 0)
    c.assume_forall("PS.step", lambda k: z3.Implies(z3.And(0 <= k, k < n), ps(k + 1) == ps(k) + coerce_term(snap(k), "int")))
    c.add_index(z3.IntVal(0))
    cache[key] = ps
    c.ghost.setdefault("prefix_sums", []).append({"ps": ps, "x": snap, "n": n})
    return ps


def fold_fn(name, x):
    """fold_{ufunc,x}(s, e): the ufunc folded over x[s:e] (s < e); unspecified for s >= e."""
    key = (name,) + struct_key(x)
    cache = _cache("fold")
    if key in cache:
        return cache[key]
    c = cur()
    sort = {"int": z3.IntSort(), "bool": z3.BoolSort(), "elem": ElemSort, "bv": z3.BitVecSort(64)}[x.kind]
    if name in ("logical_and", "logical_or"):
        sort = z3.BoolSort()
    elif name in ("add", "multiply") and x.kind == "bool":
        sort = z3.IntSort()          # numpy accumulates booleans in the platform integer for add / multiply (reduce, reduceat, accumulate)
    fold = z3.Function(fresh_name("fold_" + name), z3.IntSort(), z3.IntSort(), sort)
    snap = x.snapshot()
    n = dim_term(x.shape_[0])
    k = "bool" if sort == z3.BoolSort() else ("int" if sort == z3.IntSort() else x.kind)
    c.assume_forall("fold.one", lambda s: z3.Implies(z3.And(0 <= s, s < n), fold(s, s + 1) == coerce_term(snap(s), k)))
    c.assume_forall("fold.step", lambda s, e: z3.Implies(z3.And(0 <= s, s < e, e < n),
                    fold(s, e + 1) == apply_binary(name, fold(s, e), coerce_term(snap(e), k))), arity=2)
    cache[key] = fold
    return fold


def identity_term(ufunc, kind):
    ident = ufunc.identity
    if ident is None:
        return None
    if kind == "elem":
        return ELEM_CONST(ident)
    return scalar_term(ident, kind)


def reduceat(ufunc, a, idx):
    c = cur()
    if a.ndim != 1:
        raise Unsupported("reduceat on ndim > 1")
    from .symnp import to_arr
    idx = to_arr(idx)
    n = dim_term(a.shape_[0])
    m = dim_term(idx.shape_[0])
    isnap = idx.snapshot()
    ok = forall_fact("reduceat.inb", idx.shape_[0], lambda i: z3.And(isnap(i) >= 0, isnap(i) < n))
    if not c.branch(ok, "reduceat-bounds"):
        raise IndexError("index out of bounds in reduceat")
    fold = fold_fn(ufunc.__name__, a)
    asnap = a.snapshot()
    k = kind_of_term(fold(z3.IntVal(0), z3.IntVal(1)))

    def f(i):
        last = fold(isnap(i), n)
        mid = z3.If(isnap(i) < isnap(i + 1), fold(isnap(i), isnap(i + 1)), coerce_term(asnap(isnap(i)), k))
        return z3.If(i == m - 1, last, mid)
    dt = _np.dtype(bool) if k == "bool" else (_np.dtype(_np.int64) if a.kind == "bool" else a.dtype)
    r = SymArr.fresh(idx.shape_, f, k, dt)
    return r


def reduce_(ufunc, a, axis=0):
    if a.ndim == 2 and axis in (-1, 1) and dim_value(a.shape_[1]) == 0:
        # reduction over an empty last axis: every row gives the identity
        kind = "bool" if ufunc.__name__ in ("logical_and", "logical_or") else a.kind
        ident = identity_term(ufunc, kind)
        if ident is None:
            raise ValueError("zero-size array to reduction operation which has no identity")
        return SymArr.fresh((a.shape_[0],), lambda i: ident, kind, _np.dtype(bool) if kind == "bool" else a.dtype)
    if a.ndim != 1:
        raise Unsupported("reduce on ndim > 1")
    c = cur()
    n = dim_term(a.shape_[0])
    fold = fold_fn(ufunc.__name__, a)
    k = kind_of_term(fold(z3.IntVal(0), z3.IntVal(1)))
    if c.branch(n == 0, "reduce-empty"):
        ident = identity_term(ufunc, k)
        if ident is None:
            raise ValueError("zero-size array to reduction operation which has no identity")
        return wrap_scalar(ident)
    return wrap_scalar(fold(z3.IntVal(0), n))


def accumulate(name, x, out=None, dtype=None):
    c = cur()
    if x.ndim != 1:
        raise Unsupported("accumulate on ndim > 1")
    n = dim_term(x.shape_[0])
    if name == "add" and x.kind in ("int", "bool"):
        ps = prefix_sum(x)
        f = lambda j: ps(j + 1)
        kind = "int"
    else:
        key = ("acc", name) + struct_key(x)
        cache = _cache("acc")
        snap = x.snapshot()
        kind = x.kind
        if key in cache:
            acc = cache[key]
        else:
            sort = {"int": z3.IntSort(), "bool": z3.BoolSort(), "elem": ElemSort, "bv": z3.BitVecSort(64)}[kind]
            acc = z3.Function(fresh_name("acc_" + name), z3.IntSort(), sort)
            c.assume(z3.Implies(n > 0, acc(0) == snap(z3.IntVal(0))))
            c.assume_forall("acc.step", lambda j: z3.Implies(z3.And(0 <= j, j + 1 < n),
                            acc(j + 1) == apply_binary(name, acc(j), snap(j + 1))))
            c.add_index(z3.IntVal(0))
            cache[key] = acc
            c.ghost.setdefault("accumulates", []).append({"acc": acc, "x": snap, "n": n, "name": name})
        f = lambda j: acc(j)
    if out is not None:
        assign_all(out, f)
        return out
    return SymArr.fresh(x.shape_, f, kind, dtype or x.dtype)


def searchsorted(a, v, side):
    """requires `a` sorted (an obligation at the call site, adjacent form); result r:
    right: for all i in [0,n): i < r  <=>  a[i] <= v ;  left:  i < r  <=>  a[i] < v"""
    c = cur()
    if a.ndim != 1 or a.kind != "int":
        raise Unsupported("searchsorted on a non-integer or non 1-D array")
    n = dim_term(a.shape_[0])
    snap = a.snapshot()
    i0 = z3.Int(fresh_name("ss_i"))
    c.prove("numpy.searchsorted/requires-sorted",
            z3.Implies(z3.And(0 <= i0, i0 + 1 < n), snap(i0) <= snap(i0 + 1)), kind="safety", extra_pool=[i0, i0 + 1])
    cmp_ = (lambda x, y: x <= y) if side == "right" else (lambda x, y: x < y)
    o = as_operand(v)
    if o[0] == "scalar":
        vt = coerce_term(o[1], "int")
        r = z3.Int(fresh_name("ss"))
        c.assume(z3.And(0 <= r, r <= n))
        c.assume_forall("searchsorted", lambda i: z3.Implies(z3.And(0 <= i, i < n), (i < r) == cmp_(snap(i), vt)))
        c.add_index(r, r - 1)
        return SInt(r)
    va = o[1]
    if va.ndim != 1:
        raise Unsupported("searchsorted with a 2-D needle")
    vs = va.snapshot()
    m = dim_term(va.shape_[0])
    res = z3.Function(fresh_name("ss"), z3.IntSort(), z3.IntSort())
    c.assume_forall("searchsorted.range", lambda j: z3.Implies(z3.And(0 <= j, j < m), z3.And(0 <= res(j), res(j) <= n)))
    c.assume_forall("searchsorted", lambda j, i: z3.Implies(z3.And(0 <= j, j < m, 0 <= i, i < n),
                    (i < res(j)) == cmp_(snap(i), coerce_term(vs(j), "int"))), arity=2)
    out = SymArr.fresh(va.shape_, lambda j: res(j), "int", _np.int64)
    out.ss = {"res": res, "a": snap, "v": vs}
    return out


def argsort(a, stable):
    c = cur()
    if a.ndim != 1 or a.kind != "int":
        raise Unsupported("argsort of a non-integer or non 1-D array")
    n = dim_term(a.shape_[0])
    snap = a.snapshot()
    perm = z3.Function(fresh_name("perm"), z3.IntSort(), z3.IntSort())
    inv = z3.Function(fresh_name("inv"), z3.IntSort(), z3.IntSort())
    c.assume_forall("argsort.range", lambda t: z3.Implies(z3.And(0 <= t, t < n), z3.And(0 <= perm(t), perm(t) < n, inv(perm(t)) == t)))
    c.assume_forall("argsort.onto", lambda j: z3.Implies(z3.And(0 <= j, j < n), z3.And(0 <= inv(j), inv(j) < n, perm(inv(j)) == j)))
    c.assume_forall("argsort.sorted", lambda t: z3.Implies(z3.And(0 <= t, t + 1 < n), snap(perm(t)) <= snap(perm(t + 1))))
    c.assume_forall("argsort.sorted (pairwise; lemma adjacent-sorted=>sorted)",
                    lambda s_, t: z3.Implies(z3.And(0 <= s_, s_ <= t, t < n), snap(perm(s_)) <= snap(perm(t))), arity=2)
    if stable:
        c.assume_forall("argsort.stable", lambda t: z3.Implies(z3.And(0 <= t, t + 1 < n, snap(perm(t)) == snap(perm(t + 1))), perm(t) < perm(t + 1)))
    out = SymArr.fresh((n,), lambda t: perm(t), "int", _np.intp)
    out.argsort = {"perm": perm, "inv": inv, "a": snap, "n": n}
    c.ghost.setdefault("argsorts", []).append(out.argsort)
    return out


def unique_with_index(a):
    """np.unique(a, return_index=True) of a 1-D integer array with n elements: K distinct values uniq[0..K) strictly increasing,
    first[k] = the FIRST position holding uniq[k]; ghost grp: position -> its value's slot."""
    c = cur()
    if a.ndim != 1 or a.kind != "int":
        raise Unsupported("unique of a non-integer or non 1-D array")
    n = dim_term(a.shape_[0])
    snap = a.snapshot()
    K = z3.Int(fresh_name("uq_K"))
    uniq = z3.Function(fresh_name("uq_val"), z3.IntSort(), z3.IntSort())
    first = z3.Function(fresh_name("uq_first"), z3.IntSort(), z3.IntSort())
    grp = z3.Function(fresh_name("uq_grp"), z3.IntSort(), z3.IntSort())
    c.assume(z3.And(0 <= K, K <= n, z3.Implies(n > 0, K >= 1)))
    c.assume_forall("unique.slots", lambda k: z3.Implies(z3.And(0 <= k, k < K),
                    z3.And(0 <= first(k), first(k) < n, snap(first(k)) == uniq(k), grp(first(k)) == k)))
    c.assume_forall("unique.increasing", lambda k: z3.Implies(z3.And(0 <= k, k + 1 < K), uniq(k) < uniq(k + 1)))
    c.assume_forall("unique.increasing (pairwise; lemma adjacent-sorted=>sorted)",
                    lambda k, l: z3.Implies(z3.And(0 <= k, k < l, l < K), uniq(k) < uniq(l)), arity=2)
    c.assume_forall("unique.every element has its slot, first occurrence first", lambda i: z3.Implies(z3.And(0 <= i, i < n),
                    z3.And(0 <= grp(i), grp(i) < K, uniq(grp(i)) == snap(i), first(grp(i)) <= i)))
    c.add_index(K, K - 1)
    vals = SymArr.fresh((K,), lambda k: uniq(k), "int", a.dtype)
    idxs = SymArr.fresh((K,), lambda k: first(k), "int", _np.intp)
    # return_counts: counts[k] = CNT(uniq[k], n) with the counting function CNT(v, i) = #{t < i : a[t] == v}
    CNT = z3.Function(fresh_name("uq_cnt"), z3.IntSort(), z3.IntSort(), z3.IntSort())
    c.assume_forall("unique.count.base", lambda v: CNT(v, 0) == 0)
    c.assume_forall("unique.count.step", lambda v, i: z3.Implies(z3.And(0 <= i, i < n), CNT(v, i + 1) == CNT(v, i) + z3.If(snap(i) == v, 1, 0)), arity=2)
    c.assume_forall("unique.count.nonneg (a count)", lambda v, i: z3.Implies(z3.And(0 <= i, i <= n), CNT(v, i) >= 0), arity=2)
    counts = SymArr.fresh((K,), lambda k: CNT(uniq(k), n), "int", _np.intp)
    rec = {"K": K, "uniq": uniq, "first": first, "grp": grp, "a": snap, "n": n, "CNT": CNT}
    c.ghost.setdefault("uniques", []).append(rec)
    return vals, idxs, counts


def bincount(x, weights, minlength):
    c = cur()
    if weights is not None:
        raise Unsupported("weighted bincount")
    if x.ndim != 1 or x.kind != "int":
        raise Unsupported("bincount of a non-integer array")
    m = dim_term(x.shape_[0])
    snap = x.snapshot()
    nonneg = forall_fact("bincount.nonneg", x.shape_[0], lambda i: snap(i) >= 0)
    if not c.branch(nonneg, "bincount-nonneg"):
        raise ValueError("'list' argument must have no negative elements")
    ml = I(minlength)
    ln = z3.Int(fresh_name("bc_len"))
    w = z3.Int(fresh_name("bc_w"))
    c.assume(z3.And(ln >= ml, ln >= 0))
    c.assume_forall("bincount.len", lambda i: z3.Implies(z3.And(0 <= i, i < m), snap(i) < ln))
    c.assume(z3.Or(ln == z3.If(ml > 0, ml, 0), z3.And(0 <= w, w < m, snap(w) == ln - 1)))
    c.add_index(w)
    cnt = z3.Function(fresh_name("bc_cnt"), z3.IntSort(), z3.IntSort(), z3.IntSort())
    # cnt(k, j) = #{i < j : x[i] == k}
    c.assume_forall("bincount.base", lambda k: cnt(k, 0) == 0)
    c.assume_forall("bincount.step", lambda k, j: z3.Implies(z3.And(0 <= j, j < m),
                    cnt(k, j + 1) == cnt(k, j) + z3.If(snap(j) == k, 1, 0)), arity=2)
    r = SymArr.fresh((ln,), lambda k: cnt(k, m), "int", _np.int64)
    r.bc = {"cnt": cnt, "x": snap, "m": m}
    c.ghost.setdefault("bincount", []).append({"cnt": cnt, "x": snap, "m": m, "len": ln})
    return r
