"""C08: structural array functions (concatenate along rows, *_like, where, ragged_slice window arithmetic, nonzero)."""
import numpy as np
import z3

from .base import Family, register, model_int
from .ragged import sym_ragged, sym_shape
from .reduce import telescoping
from ..sym.core import SInt, cur, fresh_name
from ..sym.arr import SymArr, SElem, I, dim_term, ElemSort, coerce_term


def concat_ps_lemma(ctx, gs):
    """prefix sums of the concatenated row lengths (induction; needed for the constructor's size check)"""
    pss = [e for e in ctx.ghost.get("prefix_sums", [])]
    if not pss:
        return None
    ps = pss[-1]["ps"]
    offs_n, offs_s = [z3.IntVal(0)], [z3.IntVal(0)]
    for g in gs:
        offs_n.append(z3.simplify(offs_n[-1] + g.n))
        offs_s.append(offs_s[-1] + g.S(g.n))

    def expected(k):
        out = offs_s[-1]
        for i in range(len(gs) - 1, -1, -1):
            out = z3.If(k <= offs_n[i + 1], offs_s[i] + gs[i].S(k - offs_n[i]), out)
        return out
    k = z3.Int(fresh_name("k"))
    pool = [k, k + 1, z3.IntVal(0)] + [t for i, g in enumerate(gs) for t in (k - offs_n[i], k - offs_n[i] + 1, g.n, z3.IntVal(0))]
    ctx.prove("lemma.base: PS_concat(0)==0", ps(0) == expected(z3.IntVal(0)), pool=pool)
    ctx.prove("lemma.step: PS_concat(k)==expected(k) => PS_concat(k+1)==expected(k+1)",
              z3.Implies(z3.And(0 <= k, k < offs_n[-1], ps(k) == expected(k)), ps(k + 1) == expected(k + 1)), pool=pool)
    ctx.assume_forall("PS_concat (by induction)", lambda q: z3.Implies(z3.And(0 <= q, q <= offs_n[-1]), ps(q) == expected(q)))
    for g in gs:
        ctx.add_index(g.n, g.n - 1)
    ctx.add_index(offs_n[-1], offs_n[-1] - 1)
    return ps, offs_n, offs_s


@register
class ConcatenateColumns(Family):
    """np.concatenate(..., axis=1 / -1): the list handed to the constructor holds, for an ARBITRARY iteration k of `zip(*ragged_arrays)`, the row
    concat(row k of operand 0, row k of operand 1, ...): L0(k) + L1(k) (+ L2(k)) cells, the cells of operand i's row k at offset L0(k) + .. + L(i-1)(k),
    in operand order; every array iterated in lock-step has one entry per row of its operand (so zip stops after min n_i = n rows - the property speaks of
    operands with corresponding rows, n_i == n); the result is built by the first operand's class from exactly that list; operands are not written.
    The real generator of RaggedArray.__iter__ and the real comprehension run; the constructor from a list of rows is a callee (C01 stand-in)."""
    name = "arrayfunctions.concatenate[axis=1]"
    qualname = "npstructures.arrayfunctions:concatenate"
    serves = ["C08", "C19"]
    assumed = ["CPython iteration protocol: zip pairs the k-th elements and stops with the shortest; comprehensions carry no state between iterations, so one "
               "arbitrary iteration stands for all (same assumption as RaggedArray.__iter__/tolist)", "numpy.concatenate of 1-D arrays",
               "callee: RaggedArray(list of rows) builds exactly those rows (constructor from a row list: bounded stand-in of C01)",
               "the operand list has 2 or 3 entries (unrolled)"]

    def kinds(self):
        return ["2[axis=1]", "2[axis=-1]", "3[axis=1]"]

    def extra_functions(self):
        return ["RaggedArray.__iter__"]

    def run(self, ctx, kind):
        from npstructures import RaggedArray
        from npstructures.arrayfunctions import concatenate
        m = int(kind[0])
        axis = -1 if "axis=-1" in kind else 1
        gs = [sym_ragged(ctx, f"a{i}", kind="elem") for i in range(m)]
        n = gs[0].n
        for g in gs[1:]:
            ctx.assume(g.n == n)
        k = z3.Int("k")
        ctx.assume(z3.And(0 <= k, k < n))
        ctx.add_index(k, k + 1)
        made = []

        class Recording(RaggedArray):
            def __init__(self_, data, *a, **kw):
                made.append((data, a, kw))
        gs[0].ra.__class__ = Recording
        gi = {"k": k, "arrays": []}
        ctx.ghost["generic_iteration"] = gi
        try:
            out = concatenate([g.ra for g in gs], axis=axis)
        finally:
            del ctx.ghost["generic_iteration"]
            gs[0].ra.__class__ = RaggedArray
        ok = (type(out) is Recording and len(made) == 1 and not made[0][1] and not made[0][2] and isinstance(made[0][0], list) and len(made[0][0]) == 1
              and len(gi["arrays"]) >= m)
        if not (len(made) == 1 and isinstance(made[0][0], list) and len(made[0][0]) == 1 and len(gi["arrays"]) >= m):
            # an implementation of another shape (no row list built by iterating the operands): this script cannot state its contract - undecided, the
            # family's concrete cases and the stand-in decide
            from ..sym.core import Unsupported
            raise Unsupported("concatenate(axis=1) does not build its result from a list of joined rows; the proof script knows only that shape")
        ctx.prove("post.built by the first operand's class from one list holding one joined row per iteration", z3.BoolVal(ok))
        if not ok:
            return
        ctx.prove("post.exactly n iterations: every array iterated in lock-step has one entry per row",
                  z3.And(*[z3.And(z3.BoolVal(a.ndim == 1), dim_term(a.shape_[0]) == n) for a in gi["arrays"]]))
        row = made[0][0][0]
        offs = [z3.IntVal(0)]
        for g in gs:
            offs.append(z3.simplify(offs[-1] + g.L(k)))
        pool = [k, k + 1, n]
        ctx.prove("post.joined row k has L0(k) + L1(k) + .. cells", z3.And(z3.BoolVal(isinstance(row, SymArr) and row.ndim == 1), dim_term(row.shape_[0]) == offs[-1]), pool=pool)
        c = z3.Int("c")
        ctx.skolem(z3.And(0 <= c, c < offs[-1]))
        exp = None
        for i in range(m - 1, -1, -1):
            v = gs[i].D.fn(gs[i].S(k) + c - offs[i])
            exp = v if exp is None else z3.If(c < offs[i + 1], v, exp)
        ctx.prove("post.joined row k: the cells of operand 0's row k, then operand 1's row k, .. in operand order", row.get(c) == exp,
                  pool=pool + [c] + [c - o for o in offs[:-1]])
        ctx.prove("post.operands not modified", z3.BoolVal(all(g.D.buf.writes == 0 for g in gs)))

    def concretise(self, kind, model, ghost):
        return {"operands": [[2, 0, 3], [1, 2, 0], [0, 0, 2]][:int(kind[0])]}

    def concrete(self, case):
        from npstructures import RaggedArray
        ras, rowss, v = [], [], 1
        for ls in case["operands"]:
            rr = []
            for l in ls:
                rr.append(list(range(v, v + l)))
                v += l
            rowss.append(rr)
            ras.append(RaggedArray(np.array([x for r in rr for x in r], dtype=np.int64), ls))
        exp = [[x for rr in rowss for x in rr[r]] for r in range(len(rowss[0]))]
        for axis in (1, -1):
            try:
                got = np.concatenate(ras, axis=axis).tolist()
            except Exception as e:
                return {"msg": f"np.concatenate(axis={axis}) of row lengths {case['operands']} raised {type(e).__name__}: {e}", "sig": "raised:concatenate-columns"}
            if got != exp:
                return {"msg": f"np.concatenate(axis={axis}) of row lengths {case['operands']}: {got}, expected {exp}", "sig": "wrong:concatenate-columns"}

    def bounded_cases(self, tier, seed):
        import itertools
        from ..bounded.common import length_vectors
        lvs = [ls for ls in length_vectors(3, 2) if len(ls) in (1, 3)]
        for a, b in itertools.product(lvs, repeat=2):
            if len(a) == len(b):
                yield {"operands": [a, b]}
        for a in lvs[:6]:
            yield {"operands": [a, a[::-1], a]}


@register
class ConcatenateRows(Family):
    name = "arrayfunctions.concatenate[axis=0]"
    qualname = "npstructures.arrayfunctions:concatenate"
    serves = ["C08", "C19"]
    assumed = ["numpy.concatenate of 1-D arrays", "numpy.cumsum = prefix sums"]

    def kinds(self):
        return ["2", "3", "axis=2"]

    def extra_functions(self):
        return ["RaggedArray.__init__", "RaggedShape.__init__", "RaggedShape.size", "RaggedBase.ravel"]

    def _setup(self, ctx, k):
        gs = [sym_ragged(ctx, f"a{i}") for i in range(k)]
        for g in gs:
            telescoping(ctx, g, g.ra._shape.lengths)
        ctx.ghost["gs"] = gs
        return gs

    def late_lemmas(self, ctx, kind, exc):
        if "gs" in ctx.ghost and isinstance(exc, ValueError):
            concat_ps_lemma(ctx, ctx.ghost["gs"])

    def run(self, ctx, kind):
        from npstructures.arrayfunctions import concatenate
        if kind == "axis=2":
            gs = self._setup(ctx, 2)
            ctx.prove("post.other axes not handled", z3.BoolVal(concatenate([g.ra for g in gs], axis=2) is NotImplemented))
            return
        gs = self._setup(ctx, int(kind))
        out = concatenate([g.ra for g in gs], axis=0)
        ps, offs_n, offs_s = concat_ps_lemma(ctx, gs)
        ctx.prove("post.n_rows is the sum", I(out._shape.n_rows) == offs_n[-1])
        r = z3.Int("r")
        ctx.skolem(z3.And(0 <= r, r < offs_n[-1]))
        expL = None
        for i in range(len(gs) - 1, -1, -1):
            v = gs[i].L(r - offs_n[i])
            expL = v if expL is None else z3.If(r < offs_n[i + 1], v, expL)
        ctx.add_index(r, r + 1, *[r - o for o in offs_n[:-1]])
        ctx.prove("post.row lengths: all rows of all operands in order", out._shape.lengths.get(r) == expL)
        j = z3.Int("j")
        ctx.skolem(z3.And(0 <= j, j < offs_s[-1]))
        expD = None
        for i in range(len(gs) - 1, -1, -1):
            v = gs[i].D.fn(j - offs_s[i])
            expD = v if expD is None else z3.If(j < offs_s[i + 1], v, expD)
        ctx.prove("post.flat data: operands' data in order", out.ravel().get(j) == expD)
        ctx.prove("post.operands not modified", z3.BoolVal(all(g.D.buf.writes == 0 for g in gs)))

    def concretise(self, kind, model, ghost):
        gs = ghost.get("gs")
        if not gs:
            return None
        out = []
        for g in gs:
            n = min(max(model_int(model, g.n), 0), 3)
            out.append([min(max(model_int(model, g.L(z3.IntVal(r))), 0), 3) for r in range(n)])
        return {"operands": out}

    def concrete(self, case):
        from npstructures import RaggedArray
        ras, rows, v = [], [], 1
        for ls in case["operands"]:
            rr = []
            for l in ls:
                rr.append(list(range(v, v + l)))
                v += l
            rows += rr
            ras.append(RaggedArray(np.array([x for r in rr for x in r], dtype=np.int64), ls))
        try:
            got = np.concatenate(ras).tolist()
        except Exception as e:
            return {"msg": f"np.concatenate of row lengths {case['operands']} raised {type(e).__name__}: {e}", "sig": "raised:concatenate"}
        if got != rows and not (len(rows) == 0 and len(got) == 0):
            return {"msg": f"np.concatenate of row lengths {case['operands']}: {got}, expected {rows}", "sig": "wrong:concatenate"}

    def bounded_cases(self, tier, seed):
        from ..bounded.common import length_vectors
        vs = list(length_vectors(2, 2))
        for a in vs:
            for b in vs:
                yield {"operands": [a, b]}
        for a in vs[:4]:
            for b in vs[:5]:
                for c in vs[:4]:
                    yield {"operands": [a, b, c]}


@register
class LikeConstructors(Family):
    name = "arrayfunctions.zeros_like/ones_like/empty_like"
    qualname = "npstructures.arrayfunctions:zeros_like"
    serves = ["C08", "C19"]

    def kinds(self):
        return ["zeros_like", "ones_like", "empty_like"]

    def run(self, ctx, kind):
        import npstructures.arrayfunctions as af
        g = sym_ragged(ctx)
        telescoping(ctx, g, g.ra._shape.lengths)
        ctx.add_index(g.n, g.n - 1)
        out = getattr(af, kind)(g.ra)
        ctx.prove("post.same row geometry", z3.BoolVal(out._shape is g.obj))
        flat = out.ravel()
        if isinstance(flat, np.ndarray):
            ctx.prove("post.size (no rows)", z3.And(g.S(g.n) == 0, z3.BoolVal(flat.size == 0)))
            return
        ctx.prove("post.size", dim_term(flat.shape_[0]) == g.S(g.n))
        if kind != "empty_like":
            j = z3.Int("j")
            ctx.skolem(z3.And(0 <= j, j < g.S(g.n)))
            ctx.prove("post.cells", coerce_term(out.ravel().get(j), "elem") == coerce_term(z3.IntVal(0 if kind == "zeros_like" else 1), "elem"))
        ctx.prove("post.operand not modified", z3.BoolVal(g.D.buf.writes == 0))


@register
class Where(Family):
    name = "arrayfunctions.where"
    qualname = "npstructures.arrayfunctions:where"
    serves = ["C08", "C19"]

    def kinds(self):
        return ["ragged,ragged", "ragged,scalar", "scalar,ragged", "lazy,ragged", "ragged,lazy"]

    def _run_lazy(self, ctx, kind):
        """one operand is a lazily selected, not yet materialised array (rows of the mask's lengths addressed through a RaggedView2 into a larger buffer;
        its get_flat_indices is the callee contract idx[S'(r)+c] = start(r) + c*step): the result has the MASK's geometry and picks the view's cells"""
        from npstructures import RaggedArray
        from npstructures.raggedshape import RaggedView2
        from npstructures.arrayfunctions import where
        from .ragged import sym_view2
        g = sym_ragged(ctx, "o")                         # the materialised operand; its geometry is also the mask's
        size = g.S(g.n)
        mk = SymArr.symbolic("mask", size, "bool", bool, assume_len=False)
        mask = RaggedArray(mk, g.obj)
        v = sym_view2(ctx)
        ctx.assume(v.n == g.n)
        ctx.assume_forall("view rows have the mask's lengths", lambda r: z3.Implies(z3.And(0 <= r, r < g.n), v.L(r) == g.L(r)))
        kbuf = z3.Int("kbuf")
        ctx.assume(kbuf >= 0)
        D = SymArr.symbolic("D", kbuf, "elem", np.int64, assume_len=False)
        ctx.assume_forall("wf(view)", lambda r, c: z3.Implies(z3.And(0 <= r, r < v.n, 0 <= c, c < v.L(r)),
                                                              z3.And(0 <= v.S(r) + c * v.step, v.S(r) + c * v.step < kbuf)), arity=2)
        lazy = RaggedArray(D, v.obj)
        flat = sym_shape(ctx, "flat")
        ctx.assume(flat.n == v.n)
        ctx.assume_forall("flat.L", lambda r: z3.Implies(z3.And(0 <= r, r < v.n), flat.L(r) == v.L(r)))
        ctx.assume_forall("same lengths => same starts (lemma library)", lambda r: z3.Implies(z3.And(0 <= r, r <= g.n), flat.S(r) == g.S(r)))
        idx = SymArr.symbolic("gather", flat.S(flat.n), "int", assume_len=False)
        ctx.assume_forall("address map", lambda r, c: z3.Implies(z3.And(0 <= r, r < v.n, 0 <= c, c < v.L(r)),
                                                                 idx.fn(flat.S(r) + c) == v.S(r) + c * v.step), arity=2)
        rowof = z3.Function(fresh_name("rowof"), z3.IntSort(), z3.IntSort())
        ctx.assume_forall("rowof", lambda j: z3.Implies(z3.And(0 <= j, j < flat.S(flat.n)), z3.And(
            0 <= rowof(j), rowof(j) < v.n, flat.S(rowof(j)) <= j, j < flat.S(rowof(j)) + flat.L(rowof(j)))))
        ctx.derivers.append(lambda j: [rowof(j), j - flat.S(rowof(j))])
        ctx.add_index(g.n, flat.n)
        # the lazily selected operand reports as many cells as the mask has (sum of equal row lengths): induction over the rows
        from ..sym.theory import prefix_sum
        psv = prefix_sum(lazy._shape.lengths)
        telescoping(ctx, g, mask._shape.lengths)
        q = z3.Int("q")
        ctx.prove("lemma.base: no cells before the first row", psv(0) == g.S(0), pool=[z3.IntVal(0)], kind="lemma")
        ctx.prove("lemma.step: one more row of the mask's length", z3.Implies(z3.And(0 <= q, q < g.n, psv(q) == g.S(q)), psv(q + 1) == g.S(q + 1)), pool=[q, q + 1], kind="lemma")
        ctx.assume_forall("the view's running cell count is the mask's (by induction on the rows)", lambda q_: z3.Implies(z3.And(0 <= q_, q_ <= g.n), psv(q_) == g.S(q_)))
        old = RaggedView2.__dict__["get_flat_indices"]
        RaggedView2.get_flat_indices = lambda self_, do_split=False: (idx, flat.obj)
        try:
            out = where(mask, lazy, g.ra) if kind == "lazy,ragged" else where(mask, g.ra, lazy)
        finally:
            RaggedView2.get_flat_indices = old
        r = g.row()
        sh = out._shape
        ctx.prove("post.mask's geometry: same number of rows, row r starts at S(r) and has L(r) cells",
                  z3.And(dim_term(sh.starts.shape_[0]) == g.n, dim_term(sh.lengths.shape_[0]) == g.n, sh.starts.get(r) == g.S(r), sh.lengths.get(r) == g.L(r)),
                  pool=[r, r + 1, g.n])
        c = z3.Int("c")
        ctx.skolem(z3.And(0 <= c, c < g.L(r)))
        j = g.S(r) + c
        lz, other = D.fn(v.S(r) + c * v.step), g.D.fn(j)
        xe, ye = (lz, other) if kind == "lazy,ragged" else (other, lz)
        od = out._RaggedBase__data
        ctx.prove("post.cell-wise choice: cell (r, c) of the result is cell (r, c) of x or of y (the lazily selected operand's own cell)",
                  z3.And(dim_term(od.shape_[0]) == size, od.get(j) == z3.If(mk.fn(j), xe, ye)), pool=[r, r + 1, c, j, g.n, flat.S(r) + c])
        ctx.prove("post.operands not modified", z3.BoolVal(g.D.buf.writes == 0 and D.buf.writes == 0 and mk.buf.writes == 0))

    def run(self, ctx, kind):
        from npstructures import RaggedArray
        from npstructures.arrayfunctions import where
        if "lazy" in kind:
            return self._run_lazy(ctx, kind)
        g = sym_ragged(ctx, "x")
        size = g.S(g.n)
        mk = SymArr.symbolic("mask", size, "bool", bool, assume_len=False)
        mask = RaggedArray(mk, g.obj)
        yd = SymArr.symbolic("y", size, "elem", np.int64, assume_len=False)
        y = RaggedArray(yd, g.obj)
        s = z3.Const("s", ElemSort)
        xk, yk = kind.split(",")
        xv = g.ra if xk == "ragged" else SElem(s)
        yv = y if yk == "ragged" else SElem(s)
        out = where(mask, xv, yv)
        j = z3.Int("j")
        ctx.skolem(z3.And(0 <= j, j < size))
        xe = g.D.fn(j) if xk == "ragged" else s
        ye = yd.fn(j) if yk == "ragged" else s
        ctx.prove("post.cell-wise choice", out.ravel().get(j) == z3.If(mk.fn(j), xe, ye))
        ctx.prove("post.mask's geometry", z3.BoolVal(out._shape is g.obj))
        ctx.prove("post.operands not modified", z3.BoolVal(g.D.buf.writes == 0 and yd.buf.writes == 0 and mk.buf.writes == 0))

    def concretise(self, kind, model, ghost):
        return {"lengths": [2, 0, 3, 1], "derive": "reverse" if "lazy" in kind else "none"}

    def concrete(self, case):
        """np.where(mask, x, y) cell by cell against Python lists; x / y fresh or lazily derived (reversed, tail, index list) and not yet materialised"""
        from npstructures import RaggedArray
        ls = case["lengths"]

        def rows_of(base):
            out, v = [], base
            for l in ls:
                out.append([v + i for i in range(l)])
                v += l
            return out

        def build(rows, derive):
            if derive == "reverse":
                return RaggedArray(rows[::-1])[::-1]
            if derive == "tail":
                return RaggedArray([[77, 78]] + rows)[1:]
            if derive == "list":
                idx = list(range(len(rows)))[::-1]
                return RaggedArray([rows[i] for i in idx])[idx]
            return RaggedArray(rows)
        xr, yr = rows_of(100), rows_of(500)
        mrows = [[(r + c) % 2 == 0 for c in range(l)] for r, l in enumerate(ls)]
        exp = [[a if m else b for m, a, b in zip(mr, xa, ya)] for mr, xa, ya in zip(mrows, xr, yr)]
        if not any(ls):
            return None
        for which in ("x", "y"):
            mask = RaggedArray([m for mr in mrows for m in mr], ls, dtype=bool)
            x = build(xr, case["derive"] if which == "x" else "none")
            y = build(yr, case["derive"] if which == "y" else "none")
            try:
                got = np.where(mask, x, y).tolist()
            except Exception as e:
                return {"msg": f"np.where with {which} derived by {case['derive']} (row lengths {ls}) raised {type(e).__name__}: {e}", "sig": "raised:where"}
            if got != exp:
                return {"msg": f"np.where with {which} derived by {case['derive']} (row lengths {ls}): {got}, expected {exp}", "sig": "wrong:where"}

    def bounded_cases(self, tier, seed):
        from ..bounded.common import length_vectors
        for ls in length_vectors(4, 3):
            if len(ls) >= 1:
                for d in ("none", "reverse", "tail", "list"):
                    yield {"lengths": ls, "derive": d}


@register
class RaggedSlice(Family):
    """ragged_slice(array, starts, ends): the window arithmetic handed to RaggedView(...).get_flat_indices()"""
    name = "raggedslice.ragged_slice"
    qualname = "npstructures.raggedarray.raggedslice:ragged_slice"
    serves = ["C08", "C15", "C17"]
    assumed = ["callee contract RaggedView.get_flat_indices (vf.proofs.derived / indices)"]

    def kinds(self):
        return ["ragged:starts+ends", "ragged:ends-only", "ragged:starts-only"]

    def run(self, ctx, kind):
        from npstructures.raggedshape import RaggedView
        import npstructures.raggedarray.raggedslice as rsmod
        g = sym_ragged(ctx)
        n = g.n
        st = SymArr.symbolic("st", n, "int", assume_len=False)
        en = SymArr.symbolic("en", n, "int", assume_len=False)
        rec = {}
        old = RaggedView.__dict__["get_flat_indices"]

        def stub(self_, do_split=False):
            rec["view"] = self_
            m = z3.Int(fresh_name("m"))
            cur().assume(m >= 0)
            idx = SymArr.symbolic("idx", m, "int", assume_len=False)
            cur().assume_forall("addresses in range", lambda t: z3.Implies(z3.And(0 <= t, t < m), z3.And(0 <= idx.fn(t), idx.fn(t) < g.S(g.n))))
            sh = sym_shape(cur(), "win")
            rec["idx"], rec["shape"] = idx, sh
            return idx, sh.obj
        RaggedView.get_flat_indices = stub
        try:
            which = kind.split(":")[1]
            out = rsmod.ragged_slice(g.ra, st if "starts" in which else None, en if "ends" in which else None)
        finally:
            RaggedView.get_flat_indices = old
        v = rec["view"]
        r = g.row()
        a = st.fn(r) if "starts" in which else z3.IntVal(0)
        lo = g.S(r) + a
        if "ends" in which:
            e = en.fn(r)
            hi = z3.If(e < 0, g.S(r) + g.L(r) + e, z3.If(g.S(r) + e <= g.S(r) + g.L(r), g.S(r) + e, g.S(r) + g.L(r)))
        else:
            hi = g.S(r) + g.L(r)
        ctx.prove("post.window start of row r", v.starts.get(r) == lo)
        ctx.prove("post.window length of row r (negative end from the row end, end clamped to the row)",
                  v.lengths.get(r) == z3.If(hi - lo > 0, hi - lo, 0))
        t = z3.Int("t")
        ctx.skolem(z3.And(0 <= t, t < dim_term(rec["idx"].shape_[0])))
        ctx.add_index(t)
        ctx.prove("post.result gathers the window addresses", out.ravel().get(t) == g.D.fn(rec["idx"].fn(t)))
        ctx.prove("post.result has the window shape", z3.BoolVal(out._shape is rec["shape"].obj))
        ctx.prove("post.operand not modified", z3.BoolVal(g.D.buf.writes == 0))


@register
class Nonzero(Family):
    """nonzero: the (row, column) coordinates of the non-zero cells in row-major (= flat) order"""
    name = "RaggedArray.nonzero"
    qualname = "npstructures.raggedarray:RaggedArray.nonzero"
    serves = ["C08", "C19", "C05", "C11"]      # C05: _arg_extremum, C11: _get_indices use this contract
    assumed = ["numpy.flatnonzero contract", "numpy.searchsorted on the sorted row starts"]

    def extra_functions(self):
        return ["ViewBase.unravel_multi_index", "RaggedBase.ravel"]

    def run(self, ctx, kind):
        g = sym_ragged(ctx, kind="int")
        rows, cols = g.ra.nonzero()
        nz = ctx.ghost["nonzero_facts"][-1]
        ctx.prove("post.one coordinate pair per non-zero cell", z3.And(dim_term(rows.shape_[0]) == nz.cnt, dim_term(cols.shape_[0]) == nz.cnt))
        t = z3.Int("t")
        ctx.skolem(z3.And(0 <= t, t < nz.cnt))
        R, C = rows.get(t), cols.get(t)
        ctx.add_index(t, t + 1, nz.pos(t), R, R + 1, R - 1, g.n - 1)
        ctx.prove("post.row exists and column lies inside it", z3.And(0 <= R, R < g.n, 0 <= C, C < g.L(R)))
        ctx.prove("post.the cell is non-zero", g.D.fn(g.S(R) + C) != 0)
        ctx.prove("post.flat position of pair t is the t-th non-zero position", g.S(R) + C == nz.pos(t))
        ctx.prove("post.row-major order (flat positions increase)", z3.Implies(t + 1 < nz.cnt, nz.pos(t) < nz.pos(t + 1)))
        p = z3.Int("p")
        ctx.skolem(z3.And(0 <= p, p < g.S(g.n), g.D.fn(p) != 0))
        ctx.add_index(p, nz.rk(p))
        ctx.prove("post.every non-zero cell is listed", z3.And(0 <= nz.rk(p), nz.rk(p) < nz.cnt, nz.pos(nz.rk(p)) == p))
        # the contract as callers use it (same formulas as assumed by their stubs)
        ground, schemas = contract_ragged_nonzero(g, lambda j: g.D.fn(j) != 0, rows.get, cols.get, nz.cnt, nz.pos, nz.rk)
        ctx.prove("contract.ground facts", z3.And(*ground))
        ctx.prove("contract." + schemas[0][0], schemas[0][1](t), live=[t])
        ctx.prove("contract." + schemas[1][0], schemas[1][1](p), live=[p])
        t2 = z3.Int("t2")
        ctx.prove("contract." + schemas[2][0], schemas[2][1](t2, t), pool=[t, t2])


def contract_ragged_nonzero(g, M, rows, cols, cnt, pos, rk):
    """caller-visible contract of RaggedArray.nonzero() on a contiguous array with geometry g and flat truth values M:
    (rows[t], cols[t]) for t < cnt are the coordinates of the non-zero cells in flat order.  Proved in Nonzero (contract.*)."""
    A = lambda t: z3.Implies(z3.And(0 <= t, t < cnt),
                             z3.And(0 <= rows(t), rows(t) < g.n, 0 <= cols(t), cols(t) < g.L(rows(t)), g.S(rows(t)) + cols(t) == pos(t), M(pos(t)),
                                    z3.Implies(t + 1 < cnt, pos(t) < pos(t + 1))))
    B = lambda p: z3.Implies(z3.And(0 <= p, p < g.S(g.n), M(p)), z3.And(0 <= rk(p), rk(p) < cnt, pos(rk(p)) == p))
    C = lambda s_, t: z3.Implies(z3.And(0 <= s_, s_ < t, t < cnt), pos(s_) < pos(t))
    return [cnt >= 0], [("nonzero.listed-cells", A, 1), ("nonzero.every-cell-listed", B, 1), ("nonzero.flat-order", C, 2)]


def _subset_lemmas(ctx, g, M, nz, fold, ps2):
    """spec-function lemmas behind subset (each by induction, base + step obligations):
    F  fold_add(s, e) == rk(e) - rk(s) for s < e   (the add-fold of a boolean row is the number of its true cells)
    T  PS'(r) == rk(S(r))                             (prefix sums of the per-row counts = rank of the row start)"""
    n, S, L = g.n, g.S, g.L
    rk = nz.rk
    s, e, r = z3.Int("s"), z3.Int("e"), z3.Int("r")
    size = S(n)
    ctx.prove("lemmaF.base: fold(s, s+1) == rk(s+1) - rk(s)", z3.Implies(z3.And(0 <= s, s < size), fold(s, s + 1) == rk(s + 1) - rk(s)), pool=[s, s + 1], kind="lemma")
    ctx.prove("lemmaF.step", z3.Implies(z3.And(0 <= s, s < e, e < size, fold(s, e) == rk(e) - rk(s)), fold(s, e + 1) == rk(e + 1) - rk(s)), pool=[s, e, e + 1], kind="lemma")
    ctx.assume_forall("lemmaF (by induction on e)", lambda s_, e_: z3.Implies(z3.And(0 <= s_, s_ < e_, e_ <= size), fold(s_, e_) == rk(e_) - rk(s_)), arity=2)
    if ps2 is not None:
        ctx.prove("lemmaT.base: PS'(0) == rk(S(0))", ps2(0) == rk(S(0)), pool=[z3.IntVal(0)], kind="lemma")
        ctx.prove("lemmaT.step", z3.Implies(z3.And(0 <= r, r < n, ps2(r) == rk(S(r))), ps2(r + 1) == rk(S(r + 1))), pool=[r, r + 1, S(r), S(r + 1), n, n - 1], kind="lemma")
        ctx.assume_forall("lemmaT (by induction on r)", lambda r_: z3.Implies(z3.And(0 <= r_, r_ <= n), ps2(r_) == rk(S(r_))))


@register
class Subset(Family):
    """subset(mask) with a boolean RaggedArray of the same shape: row r of the result holds exactly the cells of row r whose mask cell is True,
    in order; same number of rows; a non-boolean mask is refused.  The row counts come from the real np.sum(mask, axis=-1) (the proved _reduce)."""
    name = "IndexableArray.subset"
    qualname = "npstructures.raggedarray.indexablearray:IndexableArray.subset"
    serves = ["C08", "C19"]
    timeout_ms = 30000
    assumed = ["numpy boolean-mask gather (flatnonzero rank / position functions)", "numpy.add.reduceat accumulates booleans as integers (audited)",
               "numpy.cumsum = prefix sums (RaggedShape.__init__, executed here)"]

    def kinds(self):
        return ["bool", "non-bool"]

    def extra_functions(self):
        return ["RaggedArray._reduce", "RaggedArray.sum", "RaggedArray.__init__", "RaggedShape.__init__"]

    def _setup(self, ctx):
        from npstructures import RaggedArray
        g = sym_ragged(ctx, kind="elem")
        MD = SymArr.symbolic("mask", g.S(g.n), "bool", bool, assume_len=False)
        mask = RaggedArray(MD, g.obj)
        ctx.ghost["g"], ctx.ghost["MD"] = g, MD
        from .reduce import telescoping
        telescoping(ctx, g, g.ra._shape.lengths)
        ctx.add_index(g.n, g.n - 1)
        return g, MD, mask

    def _ghosts(self, ctx):
        nz = ctx.ghost["nonzero_facts"][-1] if ctx.ghost.get("nonzero_facts") else None
        folds = ctx.ghost.get("cache_fold") or {}
        return nz

    def late_lemmas(self, ctx, kind, exc):
        if kind != "bool" or isinstance(exc, (IndexError, TypeError)):
            return
        g, MD = ctx.ghost["g"], ctx.ghost["MD"]
        from ..sym.theory import fold_fn
        from ..sym.arr import nonzero_facts
        if not ctx.ghost.get("prefix_sums"):
            return
        nz = nonzero_facts(MD, "late")
        fold = fold_fn("add", MD)
        ps2 = ctx.ghost["prefix_sums"][-1]["ps"]
        _subset_lemmas(ctx, g, MD.fn, nz, fold, ps2)
        ctx.prove_then_assume("late.lemma: the per-row counts add up to the number of True cells", ps2(g.n) == nz.cnt, pool=[g.n, g.S(g.n)], kind="lemma")

    def run(self, ctx, kind):
        from npstructures import RaggedArray
        from ..sym.theory import fold_fn
        from ..sym.arr import nonzero_facts
        g, MD, mask = self._setup(ctx)
        n, S, L, D, M = g.n, g.S, g.L, g.D.fn, MD.fn
        if kind == "non-bool":
            idx = RaggedArray(SymArr.symbolic("idx", S(n), "int", np.int64, assume_len=False), g.obj)
            try:
                g.ra.subset(idx)
            except NotImplementedError:
                ctx.prove("post.non-boolean selector refused", z3.BoolVal(True))
                return
            ctx.prove("post.non-boolean selector refused", z3.BoolVal(False))
            return
        out = g.ra.subset(mask)
        nz = nonzero_facts(MD, "post")
        rk, pos, cnt = nz.rk, nz.pos, nz.cnt
        fold = fold_fn("add", MD)
        ps2 = ctx.ghost["prefix_sums"][-1]["ps"]
        _subset_lemmas(ctx, g, M, nz, fold, ps2)
        sh = out._shape
        OD = out.ravel()
        ctx.prove("post.same number of rows", I(sh.n_rows) == n)
        ctx.prove("post.as many cells as True mask cells", dim_term(OD.shape_[0]) == cnt)
        r = g.row()
        ctx.add_index(r + 1)
        base = [r, r + 1, S(r), S(r + 1), n, n - 1]
        ctx.prove_then_assume("post.row r starts at the rank of its first cell and has as many cells as True mask cells in row r",
                              z3.And(sh.starts.get(r) == rk(S(r)), sh.lengths.get(r) == rk(S(r + 1)) - rk(S(r))), pool=base)
        c2 = z3.Int("c2")
        ctx.skolem(z3.And(0 <= c2, c2 < rk(S(r + 1)) - rk(S(r))))
        t = rk(S(r)) + c2
        p = pos(t)
        pool = base + [c2, t, t + 1, p, p + 1, rk(p), cnt, S(n)]
        ctx.prove("post.cell c' of result row r is a True-masked cell of source row r", z3.And(OD.get(sh.starts.get(r) + c2) == D(p), S(r) <= p, p < S(r + 1), M(p)), pool=pool)
        ctx.prove("post.order kept: the next cell of the result row comes from a later source cell", z3.Implies(c2 + 1 < rk(S(r + 1)) - rk(S(r)), p < pos(t + 1)), pool=pool + [pos(t + 1)])
        q = z3.Int("q")
        ctx.skolem(z3.And(S(r) <= q, q < S(r + 1), M(q)))
        ctx.prove("post.every True-masked cell of row r appears in result row r", z3.And(rk(S(r)) <= rk(q), rk(q) < rk(S(r + 1)), pos(rk(q)) == q),
                  pool=base + [q, q + 1, rk(q), cnt, S(n)], live=[r])
        ctx.prove("post.operands not modified", z3.BoolVal(g.D.buf.writes == 0 and MD.buf.writes == 0))

    def concretise(self, kind, model, ghost):
        return {"lengths": [2, 0, 3, 1]}

    def concrete(self, case):
        from npstructures import RaggedArray
        ls = case["lengths"]
        tot = sum(ls)
        data = np.arange(10, 10 + tot)
        for pattern in range(3):
            m = np.array([(i * (pattern + 2)) % 3 != 0 for i in range(tot)], dtype=bool)
            ra, mk = RaggedArray(data, ls), RaggedArray(m, ls)
            got = ra.subset(mk).tolist()
            exp, o = [], 0
            for l in ls:
                exp.append([int(data[o + c]) for c in range(l) if m[o + c]])
                o += l
            if got != exp:
                return {"msg": f"subset on lengths {ls} with mask {m.tolist()}: {got}, expected {exp}", "sig": "wrong:subset"}

    def bounded_cases(self, tier, seed):
        from ..bounded.common import length_vectors
        for ls in length_vectors(4, 3):
            yield {"lengths": ls}

    def nontrivial(self, case):
        return 0 in case["lengths"]


@register
class PaddedMatrix(Family):
    """RaggedArray.as_padded_matrix(fill_value, side): an (n_rows, W) matrix, W the longest row; right: row r holds its L(r) cells and then fill values,
    left: fill values first and the row's cells at the end.  The real function runs on a freshly built array: the 2-D index matrix
    starts[:, None] + arange(W), its clamp, ravel, the gather from the flat data, the positions to overwrite from RaggedView(...).get_flat_indices()
    (callee contract), the scatter of the fill value and the final reshape.  Flat positions r * W + c are nonlinear terms left to the solver."""
    name = "RaggedArray.as_padded_matrix"
    qualname = "npstructures.raggedarray:RaggedArray._as_padded_matrix"
    serves = ["C08"]
    configs = ["int64"]
    timeout_ms = 60000
    assumed = ["callee contract view.get_flat_indices(): idx[S'(r)+c] = start(r) + c over the geometry of the view's lengths (proved: RaggedView.get_flat_indices)",
               "numpy.max (witness form), broadcasting add of a column and a row vector, numpy.minimum, ravel / reshape of a 2-D array in C order "
               "(flat = r * W + c), fancy gather / scatter (witness form)", "nonlinear integer arithmetic of the solver for r * W + c"]

    def kinds(self):
        return ["right", "left"]

    def extra_functions(self):
        return ["RaggedBase.ravel", "RaggedShape.starts", "RaggedShape.ends", "RaggedArray.__len__"]

    def run(self, ctx, kind):
        from .e2e import stub_flat_indices
        from ..sym.arr import SElem, ElemSort
        g = sym_ragged(ctx, kind="elem")
        ctx.ghost["g"] = g
        n, S, L, D = g.n, g.S, g.L, g.D.fn
        ctx.assume(n > 0)                    # the padded matrix of an array without rows has no longest row (numpy.max of nothing is refused)
        ctx.add_index(n, n - 1)
        fill = z3.Const("fill", ElemSort)
        cls, old, calls = stub_flat_indices(ctx)
        from ..sym import symnp
        from ..sym.arr import div_abstraction
        real_max = symnp.SymNumpy.__dict__["max"]
        st = {"calls": calls, "g": g, "side": kind}
        ctx.ghost["pm"] = st

        def max_hook(self_, x, *a, **k):
            m = real_max(self_, x, *a, **k)
            if isinstance(m, SInt) and "W" not in st:
                st["W"] = m.t
                # the width of the matrix: case split on "some row is non-empty"; products with / quotients by a positive width are kept in factored
                # form (MUL(x) = x * W, DIV(a) = a // W, see sym.arr.div_abstraction) so that the obligations stay linear
                if ctx.branch(m.t > 0, "some row is non-empty"):
                    DIV, MUL = div_abstraction(ctx, m.t)
                    st["DIV"], st["MUL"] = DIV, MUL
                    ctx.assume_forall("MUL strictly increasing (adjacent by MUL.step and W > 0; lemma adjacent-sorted=>sorted applied to MUL(x) - x)",
                                      lambda a_, b_: z3.Implies(a_ < b_, MUL(a_) + (b_ - a_) <= MUL(b_)), arity=2)
            return m
        symnp.SymNumpy.max = max_hook
        try:
            out = g.ra._as_padded_matrix(fill_value=SElem(fill), side=kind)
        finally:
            cls.get_flat_indices = old
            symnp.SymNumpy.max = real_max
        ok = isinstance(out, SymArr) and out.ndim == 2 and len(calls) == 1
        ctx.prove("post.a matrix, filled through one get_flat_indices", z3.BoolVal(ok))
        if not ok:
            return
        W = dim_term(out.shape_[1])
        call = calls[0]
        osh = call["shape"]
        r0 = z3.Int("r0")
        ctx.skolem(z3.And(0 <= r0, r0 < n))
        ctx.prove("post.one matrix row per row, wide enough for every row", z3.And(dim_term(out.shape_[0]) == n, L(r0) <= W), pool=[r0, r0 + 1])
        r, c = z3.Int("r"), z3.Int("c")
        ctx.skolem(z3.And(0 <= r, r < n))
        ctx.skolem(z3.And(0 <= c, c < W))
        pad = W - L(r)
        if kind == "right":
            is_cell, src = c < L(r), S(r) + c
            t = osh.S(r) + (c - L(r))                  # the overwritten cell's place in the list of positions to fill
        else:
            is_cell, src = c >= pad, S(r) + c - pad
            t = osh.S(r) + c
        MUL = st.get("MUL")
        p = MUL(r) + c if MUL is not None else r * W + c
        sc_ = ctx.ghost["scatters"][-1]
        j = sc_["wit"](p)
        rj = call["rowof"](j)
        cj = j - osh.S(rj)
        ctx.prove_then_assume("lemma: the fill view has one row per row with W - L(r) cells", z3.And(call["n"] == n, osh.L(r) == pad), pool=[r, r + 1])
        ctx.prove_then_assume("lemma: a pad cell is in the list of positions to fill", z3.Implies(z3.Not(is_cell), z3.And(0 <= t, t < osh.S(osh.n), call["idx"].fn(t) == p)),
                              pool=[r, r + 1, c, t, n, osh.n, c - L(r)])
        hit = sc_["hit"](p)
        ctx.prove_then_assume("lemma: a writer of r * W + c is a cell (rj, cj) of the fill view", z3.Implies(hit, z3.And(0 <= rj, rj < n, 0 <= cj, cj < osh.L(rj))),
                              pool=[j, rj, rj + 1, p, n, osh.n])
        ctx.prove_then_assume("lemma: ... in the same matrix row, among its pad cells", z3.Implies(hit, z3.And(rj == r, z3.Not(is_cell))),
                              pool=[rj, rj + 1, cj, r, r + 1])
        if MUL is not None:
            dp = st["DIV"](p)
            ctx.prove_then_assume("lemma: flat position r * W + c of the index matrix is its cell (r, c)", z3.And(dp == r, p - MUL(dp) == c),
                                  pool=[p, r, r + 1, r - 1, dp, dp + 1, c])
        ctx.prove_then_assume("lemma: a pad cell is overwritten", z3.Implies(z3.Not(is_cell), hit), pool=[r, t, z3.IntVal(0)])
        ctx.prove_then_assume("lemma: a cell of the row lies in the flat data", z3.Implies(is_cell, z3.And(0 <= src, src <= S(n) - 1)), pool=[r, r + 1, n, c])
        ctx.prove("post.cell (r, c): the row's own cell or the fill value", out.get(r, c) == z3.If(is_cell, D(src), fill),
                  pool=[r, r + 1, c, p, t, j, rj, cj, n, n - 1, src] + ([st["DIV"](p), st["DIV"](p) + 1] if MUL is not None else []))
        ctx.prove("post.operand not modified", z3.BoolVal(g.D.buf.writes == 0))

    def late_lemmas(self, ctx, kind, exc):
        """the two bounds checks cannot fail: the gather reads cells of the flat data (clamped to its last cell), the scatter writes cells of the matrix"""
        st = ctx.ghost.get("pm")
        if st is None or not isinstance(exc, IndexError) or not ctx.ghost.get("forall_facts") or "W" not in st:
            return
        g = st["g"]
        n, S, L = g.n, g.S, g.L
        W = st["W"]
        w = ctx.ghost["forall_facts"][-1]["w"]
        MUL, DIV = st.get("MUL"), st.get("DIV")
        if MUL is None:
            # no row has a cell: the matrix has no columns, nothing is read or written
            # W is numpy.max of the row lengths: attained at a row (its contract, restated with a name), hence W >= 0, and W <= 0 on this path
            wr0 = z3.Int("late_wr0")
            ctx.assume(z3.And(0 <= wr0, wr0 < n, L(wr0) == W))
            ctx.prove_then_assume("late.lemma: the matrix has no columns", W == 0, kind="lemma", pool=[wr0, wr0 + 1])
            ctx.prove_then_assume("late.lemma: without columns there is no index to check", z3.BoolVal(False), kind="lemma", pool=[w, n, z3.IntVal(0), wr0])
            return
        wr = z3.Int("late_wr")
        ctx.assume(z3.And(0 <= wr, wr < n, L(wr) == W))            # numpy.max is attained (its contract; restated with a name)
        ctx.prove_then_assume("late.lemma: the data hold at least W cells", S(n) >= W, kind="lemma", pool=[wr, wr + 1, n])
        if not st["calls"]:
            q, c = z3.Int("late_q"), z3.Int("late_c")
            ctx.assume(z3.And(q == DIV(w), c == w - MUL(q)))
            ctx.prove_then_assume("late.lemma: the failing flat position is a cell (q, c) of the index matrix", z3.And(0 <= q, q < n, 0 <= c, c < W),
                                  kind="lemma", pool=[w, q, q + 1, n, z3.IntVal(0), z3.IntVal(-1)])
            ctx.prove_then_assume("late.lemma: the gather's bounds check cannot fail", z3.BoolVal(False), kind="lemma", pool=[w, q, q + 1, c, n, n - 1, z3.IntVal(0)])
            return
        call = st["calls"][-1]
        osh = call["shape"]
        rj, k = z3.Int("late_rj"), z3.Int("late_k")
        ctx.assume(z3.And(rj == call["rowof"](w), k == w - osh.S(rj)))
        ctx.prove_then_assume("late.lemma: the failing position is a pad cell (rj, k) of the fill view", z3.And(call["n"] == n, 0 <= rj, rj < n, 0 <= k, k < W - L(rj)),
                              kind="lemma", pool=[w, rj, rj + 1])
        ctx.prove_then_assume("late.lemma: the scatter's bounds check cannot fail", z3.BoolVal(False), kind="lemma", pool=[w, rj, rj + 1, k, n, z3.IntVal(0)])

    def concretise(self, kind, model, ghost):
        return {"lengths": [2, 0, 3, 1], "side": kind}

    def concrete(self, case):
        from npstructures import RaggedArray
        ls, side = case["lengths"], case["side"]
        if not ls:
            return None
        rows, v = [], 3
        for l in ls:
            rows.append([v + i for i in range(l)])
            v += l
        ra = RaggedArray(np.array([x for r in rows for x in r], dtype=np.int64), ls)
        w = max(ls)
        exp = [(r + [-7] * (w - len(r))) if side == "right" else ([-7] * (w - len(r)) + r) for r in rows]
        try:
            got = ra.as_padded_matrix(fill_value=-7, side=side)
        except Exception as e:
            return {"msg": f"as_padded_matrix(-7, {side!r}) of rows {rows} raised {type(e).__name__}: {e}", "sig": "raised:padded"}
        if np.asarray(got).shape != (len(ls), w) or np.asarray(got).tolist() != exp:
            return {"msg": f"as_padded_matrix(-7, {side!r}) of rows {rows}: {np.asarray(got).tolist()}, expected {exp}", "sig": "wrong:padded"}

    def bounded_cases(self, tier, seed):
        from ..bounded.common import length_vectors
        for ls in length_vectors(4, 3):
            if ls:
                for side in ("right", "left"):
                    yield {"lengths": ls, "side": side}
