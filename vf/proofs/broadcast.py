"""C03 / C04 / C08: RaggedShape._raw_broadcast - broadcasting one value per row over the flat data with two
last-write-wins XOR scatters and a prefix-XOR scan over 64-bit patterns.

Contract: result[S(r) + c] = values[r] (bit pattern) for every row r and c < L(r); len(result) = S(n).
Proof (sidecar script): B = builder after the two scatters, X(j) = prefix-xor.  Invariant X(j) = v[rho(j)].
   scatter 1 (reversed row ends): B1[p] = v[first row ending at p]   (reversal + last-wins = first)
   scatter 2 (row starts):        B3[p] = B1'[p] ^ v[last row starting at p]
   same row:  no row starts or ends at j+1, so B3[j+1] = 0;   next row:  B3[j+1] = v[q] ^ v[r]."""
import numpy as np
import z3

from .base import Family, register, model_int
from .ragged import sym_shape
from ..sym.core import SInt, cur, fresh_name
from ..sym.arr import SymArr, I, dim_term


@register
class RawBroadcast(Family):
    name = "RaggedShape._raw_broadcast"
    qualname = "npstructures.raggedshape:RaggedShape._raw_broadcast"
    serves = ["C03", "C04", "C05", "C07", "C08"]
    timeout_ms = 60000
    assumed = ["numpy fancy gather / in-place op / fancy assignment `a[idx] ^= v` = gather, xor, last-write-wins scatter (witness form)",
               "ufunc.accumulate(bitwise_xor)", "ndarray.view to the unsigned type of the same size is the identity on bit patterns",
               "lemma partition-point (existence of the row containing a flat position; proved by induction in vf.proofs.lemmas)"]

    def kinds(self):
        return ["int64-values"]

    def extra_functions(self):
        return ["RaggedShape.size", "ViewBase.ends", "ViewBase.starts"]

    def run(self, ctx, kind):
        ctx.ghost["unsigned_as_bv"] = True
        g = sym_shape(ctx)
        ctx.ghost["g"] = g
        n, S, L = g.n, g.S, g.L
        size = S(n)
        vals = SymArr.symbolic("v", n, "bv", np.int64, assume_len=False)
        v = vals.fn
        rho = z3.Function(fresh_name("rho"), z3.IntSort(), z3.IntSort())
        ctx.assume_forall("rho", lambda j: z3.Implies(z3.And(0 <= j, j < size), z3.And(0 <= rho(j), rho(j) < n, S(rho(j)) <= j, j < S(rho(j) + 1))))
        ctx.assume(n > 0)
        ctx.add_index(n, n - 1, z3.IntVal(0), rho(z3.IntVal(0)), rho(z3.IntVal(0)) + 1)
        out = g.obj._raw_broadcast(vals)
        ctx.prove("post.len==S(n)", dim_term(out.shape_[0]) == size)
        ctx.prove("post.dtype of the values", z3.BoolVal(out.dtype == np.dtype(np.int64)))
        acc = ctx.ghost["accumulates"][-1]["acc"]
        x = ctx.ghost["accumulates"][-1]["x"]
        sc1, sc2 = ctx.ghost["scatters"][-2], ctx.ghost["scatters"][-1]
        w1, w2 = sc1["wit"], sc2["wit"]
        Z = z3.IntVal(0)
        r0 = rho(Z)
        # base
        ctx.prove_then_assume("base.lemma: B[0] == v[last row starting at 0] and that row contains position 0",
                              z3.Implies(size > 0, z3.And(S(r0) == 0, w2(Z) == r0)), pool=[Z, r0, r0 + 1, w2(Z), w2(Z) + 1, n])
        ctx.prove_then_assume("base: X(0) == v[rho(0)]", z3.Implies(size > 0, acc(Z) == v(r0)),
                              pool=[Z, r0, w2(Z), w2(Z) + 1, z3.IntVal(1), n, w1(Z), n - w1(Z), n - 1 - w1(Z)])
        # step
        j = z3.Int("j")
        ctx.skolem(z3.And(0 <= j, j + 1 < size))
        ctx.assume(acc(j) == v(rho(j)))
        q, r = rho(j), rho(j + 1)
        p = j + 1
        a1, a2 = w1(p), w2(p)
        r1 = n - 1 - a1                           # the row whose (reversed) end entry wrote position p in scatter 1
        same = q == r
        ctx.prove_then_assume("step.same-row.lemma: no row ends or starts at j+1, so B[j+1] == 0", z3.Implies(same, x(p) == 0),
                              pool=[j, p, q, q + 1, a1, a2, a2 + 1, r1, r1 + 1, n - a1, Z])
        ctx.prove("step.same-row: X(j+1) == v[rho(j+1)]", z3.Implies(same, acc(p) == v(r)), pool=[j, p])
        ctx.prove_then_assume("step.next-row.lemma1: j+1 starts row r and ends row q", z3.Implies(z3.Not(same), z3.And(S(r) == p, S(q + 1) == p, q < r)),
                              pool=[j, p, q, q + 1, r, r + 1])
        ctx.prove_then_assume("step.next-row.lemma2: the first row ending at j+1 is q (scatter 1 wrote v[q])", z3.Implies(z3.Not(same), r1 == q),
                              pool=[j, p, q, q + 1, n - 1 - q, a1, r1, r1 + 1, n - a1, Z])
        ctx.prove_then_assume("step.next-row.lemma3: the last row starting at j+1 is r (scatter 2 xors v[r])", z3.Implies(z3.Not(same), a2 == r),
                              pool=[j, p, r, r + 1, a2, a2 + 1, Z])
        ctx.prove_then_assume("step.next-row.lemma4: B[j+1] == v[q] ^ v[r]", z3.Implies(z3.Not(same), x(p) == (v(q) ^ v(r))),
                              pool=[j, p, q, q + 1, r, r + 1, a1, a2, a2 + 1, r1, r1 + 1, n - a1, Z, n - 1 - q, n])
        ctx.prove("step.next-row: X(j+1) == v[rho(j+1)]", z3.Implies(z3.Not(same), acc(p) == v(r)), pool=[j, p])
        ctx.assume_forall("X(j) == v[rho(j)] (by induction)", lambda t: z3.Implies(z3.And(0 <= t, t < size), acc(t) == v(rho(t))))
        rr = g.row("row")
        c = z3.Int("c")
        ctx.skolem(z3.And(0 <= c, c < L(rr)))
        pp = S(rr) + c
        ctx.prove_then_assume("post.lemma: rho(S(r)+c) == r", rho(pp) == rr, pool=[c, pp, rr, rr + 1, rho(pp), rho(pp) + 1])
        ctx.prove("post.result[S(r)+c] == values[r]", out.get(pp) == v(rr), pool=[pp, rr])
        ctx.prove("post.values not modified", z3.BoolVal(vals.buf.writes == 0))

    def concretise(self, kind, model, ghost):
        g = ghost["g"]
        n = min(max(model_int(model, g.n), 1), 5)
        return {"lengths": [min(max(model_int(model, g.L(z3.IntVal(r))), 0), 3) for r in range(n)]}

    def concrete(self, case):
        from npstructures.raggedshape import RaggedShape
        ls = case["lengths"]
        for dt, vals in ((np.int64, [7 * (i + 1) * (-1) ** i for i in range(len(ls))]), (np.float64, [i + 0.5 for i in range(len(ls))]),
                         (np.uint8, [(37 * (i + 1)) % 256 for i in range(len(ls))])):
            v = np.array(vals, dtype=dt)
            got = RaggedShape(ls)._raw_broadcast(v)
            exp = [x for x, l in zip(v.tolist(), ls) for _ in range(l)]
            if np.asarray(got).tolist() != exp or np.asarray(got).dtype != v.dtype:
                return {"msg": f"_raw_broadcast({vals}) over row lengths {ls}: {np.asarray(got).tolist()}, expected {exp}", "sig": "wrong:_raw_broadcast"}

    def bounded_cases(self, tier, seed):
        from ..bounded.common import length_vectors
        for ls in length_vectors(4, 3, 1):
            yield {"lengths": ls}

    def nontrivial(self, case):
        return 0 in case["lengths"]


@register
class BroadcastValues(Family):
    """RaggedShape.broadcast_values / RaggedArray._broadcast_rows: the wrappers around _raw_broadcast"""
    name = "RaggedShape.broadcast_values"
    qualname = "npstructures.raggedshape:RaggedShape.broadcast_values"
    serves = ["C03", "C04", "C05", "C07", "C08"]
    assumed = ["callee contract RaggedShape._raw_broadcast (proved above)"]

    def kinds(self):
        return ["column", "single-value", "wrong-shape", "_broadcast_rows"]

    def run(self, ctx, kind):
        from npstructures.raggedshape import RaggedShape
        from npstructures import RaggedArray
        g = sym_shape(ctx)
        rec = {}
        old = RaggedShape.__dict__["_raw_broadcast"]
        RaggedShape._raw_broadcast = lambda self_, values, dtype=None: rec.setdefault("call", (values, dtype)) and "BROADCAST"
        try:
            if kind == "column":
                col = SymArr.symbolic("col", (g.n, 1), "elem", np.int64, assume_len=False)
                ctx.assume(g.n > 1)
                out = g.obj.broadcast_values(col, dtype=np.int64)
                t = z3.Int("t")
                ctx.skolem(z3.And(0 <= t, t < g.n))
                ctx.prove("post.the column's entries, one per row, are handed to _raw_broadcast",
                          z3.And(z3.BoolVal(out == "BROADCAST"), rec["call"][0].get(t) == col.fn(t, 0), dim_term(rec["call"][0].shape_[0]) == g.n))
            elif kind == "single-value":
                one = SymArr.symbolic("one", (1, 1), "elem", np.int64, assume_len=False)
                out = g.obj.broadcast_values(one, dtype=np.int64)
                ctx.prove("post.a single value is returned as is (numpy broadcasts it)", z3.And(z3.BoolVal("call" not in rec and out.ndim == 1),
                                                                                              out.get(0) == one.fn(0, 0)))
            elif kind == "wrong-shape":
                k = z3.Int("k")
                ctx.assume(z3.And(k >= 2, k != g.n))
                bad = SymArr.symbolic("bad", (k, 1), "elem", np.int64, assume_len=False)
                try:
                    g.obj.broadcast_values(bad, dtype=np.int64)
                    ctx.prove("post.a column of the wrong height is refused", z3.BoolVal(False))
                except AssertionError:
                    ctx.prove("post.a column of the wrong height is refused", z3.BoolVal(True))
            else:
                RaggedShape._raw_broadcast = old
                rec2 = {}
                oldb = RaggedShape.__dict__["broadcast_values"]
                size = g.S(g.n)
                flat = SymArr.symbolic("flat", size, "elem", np.float64, assume_len=False)
                RaggedShape.broadcast_values = lambda self_, values, dtype=None: rec2.setdefault("call", (values, dtype)) and flat
                try:
                    D = SymArr.symbolic("D", size, "elem", np.int64, assume_len=False)
                    ra = RaggedArray(D, g.obj)
                    col = SymArr.symbolic("col", (g.n, 1), "elem", np.float64, assume_len=False)
                    out = ra._broadcast_rows(col, dtype=np.float64)
                finally:
                    RaggedShape.broadcast_values = oldb
                ctx.prove("post._broadcast_rows: same geometry, broadcast data, requested dtype",
                          z3.BoolVal(out._shape is g.obj and out.ravel() is flat and rec2["call"][0] is col and np.dtype(rec2["call"][1]) == np.float64))
        finally:
            RaggedShape._raw_broadcast = old
