"""Symbolic well-formed geometry objects (ghost state of DESIGN section 6) built on the REAL classes.

`sym_shape`  : a RaggedShape with n rows, lengths L(r) >= 0 and starts S = exclusive prefix sum of L
               (S(0)=0, S(r+1)=S(r)+L(r)), plus the proved lemmas about S as hypotheses.
`sym_view2`  : a RaggedView2 with arbitrary starts, lengths >= 0 and a non-zero column step.
`sym_view`   : a RaggedView (codes = interleaved starts / lengths), arbitrary starts, lengths >= 0.
"""
import numpy as np
import z3

from ..sym.core import SInt, cur, fresh_name
from ..sym.arr import SymArr, I, dim_term


class Geo:
    """handle on the ghost functions of a symbolic geometry"""

    def __init__(self, n, S, L, step=None, obj=None):
        self.n, self.S, self.L, self.step, self.obj = n, S, L, step, obj

    def row(self, name="r"):
        """a fresh generic row index in [0, n) (skolem constant of a forall-rows goal)"""
        c = cur()
        r = z3.Int(fresh_name(name))
        c.skolem(z3.And(0 <= r, r < self.n))
        c.add_index(r)
        return r


def interleaved(n, S, L, dtype=np.int64):
    """the `_codes` array: [S(0), L(0), S(1), L(1), ...]"""
    def f(i):
        i = z3.simplify(i)
        return z3.If(i % 2 == 0, S(i / 2), L(i / 2))
    return SymArr.fresh((z3.simplify(2 * n),), f, "int", dtype)


def index_dtype():
    from npstructures.raggedshape import ViewBase
    return ViewBase._dtype


def sym_shape(ctx, name="sh", n=None, dtype=None, lemmas=True):
    from npstructures.raggedshape import RaggedShape
    dtype = dtype or index_dtype()
    n = z3.Int(fresh_name(name + "_n")) if n is None else n
    S = z3.Function(fresh_name(name + "_S"), z3.IntSort(), z3.IntSort())
    L = z3.Function(fresh_name(name + "_L"), z3.IntSort(), z3.IntSort())
    ctx.assume(n >= 0)
    ctx.assume(S(0) == 0)
    ctx.assume_forall(name + ".L>=0", lambda r: z3.Implies(z3.And(0 <= r, r < n), L(r) >= 0))
    ctx.assume_forall(name + ".S.step", lambda r: z3.Implies(z3.And(0 <= r, r < n), S(r + 1) == S(r) + L(r)))
    if lemmas:
        # lemma PS-monotone (proved by induction in vf.proofs.lemmas on every run)
        ctx.assume_forall(name + ".S.mono", lambda a, b: z3.Implies(z3.And(0 <= a, a <= b, b <= n), S(a) <= S(b)), arity=2)
        ctx.assume_forall(name + ".S>=0", lambda r: z3.Implies(z3.And(0 <= r, r <= n), S(r) >= 0))
    ctx.add_index(z3.IntVal(0), n)
    obj = RaggedShape.__new__(RaggedShape)
    obj._codes = interleaved(n, S, L, dtype)
    obj._step = None
    obj._is_coded = True
    g = Geo(n, S, L, obj=obj)
    obj._ghost = g
    return g


def sym_view(ctx, name="vw", n=None, dtype=None, step=None):
    from npstructures.raggedshape import RaggedView
    dtype = dtype or index_dtype()
    n = z3.Int(fresh_name(name + "_n")) if n is None else n
    S = z3.Function(fresh_name(name + "_S"), z3.IntSort(), z3.IntSort())
    L = z3.Function(fresh_name(name + "_L"), z3.IntSort(), z3.IntSort())
    ctx.assume(n >= 0)
    ctx.assume_forall(name + ".L>=0", lambda r: z3.Implies(z3.And(0 <= r, r < n), L(r) >= 0))
    obj = RaggedView.__new__(RaggedView)
    obj._codes = interleaved(n, S, L, dtype)
    obj._step = step
    g = Geo(n, S, L, step=step, obj=obj)
    obj._ghost = g
    return g


def sym_view2(ctx, name="v2", n=None, col_step="sym"):
    from npstructures.raggedshape import RaggedView2
    n = z3.Int(fresh_name(name + "_n")) if n is None else n
    ctx.assume(n >= 0)
    Sa = SymArr.symbolic(name + "_S", n, "int", assume_len=False)
    La = SymArr.symbolic(name + "_L", n, "int", assume_len=False)
    S, L = Sa.fn, La.fn
    ctx.assume_forall(name + ".L>=0", lambda r: z3.Implies(z3.And(0 <= r, r < n), L(r) >= 0))
    if col_step == "sym":
        cs = z3.Int(fresh_name(name + "_cs"))
        ctx.assume(cs != 0)
        cs_v = SInt(cs)
    else:
        cs = z3.IntVal(int(col_step))
        cs_v = int(col_step)
    obj = RaggedView2(Sa, La, cs_v)
    g = Geo(n, S, L, step=cs, obj=obj)
    return g


def sym_ragged(ctx, name="ra", kind="elem", dtype=np.int64, g=None, safe_mode=True):
    """a freshly-built (contiguous) RaggedArray over a symbolic wf shape; data D of length S(n);
    cell(r, c) = D[S(r) + c]"""
    from npstructures import RaggedArray
    g = g or sym_shape(ctx, name + "_sh")
    D = SymArr.symbolic(name + "_D", g.S(g.n), kind, dtype, assume_len=False)
    ra = RaggedArray(D, g.obj, safe_mode=safe_mode)
    g.D = D
    g.ra = ra
    return g
