"""C03 bounded stand-in: assignment through every index expression against list-of-rows assignment."""
import itertools
import numpy as np
from .common import import_repo, length_vectors, rows_for, slices, dec_index, py_index_rows

PROPERTY = "C03"
RULE = ("exhaustive: row-length vectors (rows<=R, len<=L) x index expressions of C02 with non-repeating row selectors x "
        "value kinds (scalar, flat row of the selection's size, (m,1) column vector, matching RaggedArray, mismatching "
        "RaggedArray [must be refused], ragged boolean mask with scalar / flat values); after the assignment every cell, the "
        "row count and all row lengths are compared with the list-of-rows oracle. non-trivial = empty row present, "
        "negative/non-unit step, or negative index")
BOUNDS = {"quick": {"max_rows": 3, "max_len": 3, "shapes": "rows<=3 x len<=2 and rows<=2 x len<=3", "row_slices": "bounds {None,-4,-1,0,1,2,4} x steps {None,2,-1,-2}", "col_slices": "bounds {None,-2,-1,0,1,3} x all 7 steps; value kind rotated over column slices"}, "thorough": {"max_rows": 4, "max_len": 4}}

Q_B = [None, -4, -1, 0, 1, 2, 4]
Q_S = [None, 2, -1, -2]
C_B = [None, -2, -1, 0, 1, 3]
VALUE_KINDS = ["scalar", "flat", "column", "ragged", "ragged-mismatch"]


def row_selectors(n, tier):
    sel = [{"ellipsis": 1}] + list(range(-n, n))
    sel += [{"slice": list(s)} for s in (slices(Q_B, Q_S) if tier == "quick" else slices())]
    for k in range(0, min(n, 3) + 1):
        for combo in itertools.permutations(range(n), k):
            sel.append({"list": list(combo)})
            if k and tier != "quick":
                sel.append({"list": [c - n for c in combo]})
    if n:
        sel.append({"list": [-1]})
    for m in itertools.product([False, True], repeat=n):
        sel.append({"mask": list(m)})
    return sel


def col_selectors(maxlen, tier):
    sel = [None] + list(range(-maxlen, maxlen))
    sel += [{"slice": list(s)} for s in (slices(C_B) if tier == "quick" else slices())]
    return sel


def shapes(tier):
    b = BOUNDS[tier]
    if tier == "quick":
        seen = set()
        for ls in itertools.chain(length_vectors(3, 2), length_vectors(2, 3)):
            if tuple(ls) not in seen:
                seen.add(tuple(ls))
                yield ls
    else:
        yield from length_vectors(b["max_rows"], b["max_len"])


def cases(tier, seed):
    b = BOUNDS[tier]
    k = 0
    for lengths in shapes(tier):
        n = len(lengths)
        for r in row_selectors(n, tier):
            for c in col_selectors(b["max_len"], tier):
                if c is not None and tier == "quick" and isinstance(r, dict) and "slice" in r and r["slice"] not in (
                        [None, None, None], [1, None, None], [None, None, -1], [None, None, 2], [None, -1, None]):
                    continue
                k += 1
                if tier == "quick" and isinstance(c, dict):
                    # the value kind is independent of the particular column slice: rotate it
                    yield {"lengths": lengths, "row": r, "col": c, "value": VALUE_KINDS[k % len(VALUE_KINDS)]}
                    continue
                for vk in VALUE_KINDS:
                    yield {"lengths": lengths, "row": r, "col": c, "value": vk}
        # ragged boolean mask assignment
        total = sum(lengths)
        if total <= 6:
            for bits in itertools.product([False, True], repeat=total):
                for vk in ("scalar", "flat"):
                    yield {"lengths": lengths, "ragged_mask": list(bits), "value": vk}
    if tier == "thorough":
        rng = np.random.default_rng(seed)
        for _ in range(20000):
            n = int(rng.integers(1, 7))
            lengths = [int(x) for x in rng.integers(0, 7, size=n)]

            def rb():
                return None if rng.random() < 0.3 else int(rng.integers(-9, 10))

            def rstep():
                return None if rng.random() < 0.3 else int(rng.choice([1, 2, 3, -1, -2, -3]))
            kind = rng.integers(0, 4)
            if kind == 0:
                r = int(rng.integers(-n, n))
            elif kind == 1:
                r = {"slice": [rb(), rb(), rstep()]}
            elif kind == 2:
                r = {"list": [int(x) for x in rng.permutation(n)[: int(rng.integers(0, n + 1))]]}
            else:
                r = {"mask": [bool(x) for x in rng.integers(0, 2, size=n)]}
            ck = rng.integers(0, 3)
            c = None if ck == 0 else (int(rng.integers(-6, 6)) if ck == 1 else {"slice": [rb(), rb(), rstep()]})
            yield {"lengths": lengths, "row": r, "col": c, "value": str(rng.choice(VALUE_KINDS))}


def nontrivial(case):
    if 0 in case["lengths"]:
        return True
    for s in (case.get("row"), case.get("col")):
        if isinstance(s, dict) and "slice" in s and s["slice"][2] not in (None, 1):
            return True
        if isinstance(s, int) and s < 0:
            return True
    return "ragged_mask" in case and any(case["ragged_mask"])


def addressed(rows, rsel, csel):
    """coordinates addressed by the index: ('ragged', [[(r,c),...] per selected row]) | ('flat', [(r,c)...]) |
    ('scalar', (r,c)) ; IndexError if an integer row / column does not exist"""
    n = len(rows)
    coords = [[(r, c) for c in range(len(rows[r]))] for r in range(n)]
    kind, sub = py_index_rows(coords, rsel)
    if csel is None:
        return ("ragged", sub) if kind == "rows" else ("flat", sub)
    if csel is Ellipsis:
        csel = slice(None)
    if kind == "row":
        return ("flat", sub[csel]) if isinstance(csel, slice) else ("scalar", sub[csel])
    if isinstance(csel, slice):
        return "ragged", [r[csel] for r in sub]
    return "flat", [r[csel] for r in sub]


def check(case):
    import_repo()
    from npstructures import RaggedArray
    lengths = case["lengths"]
    rows = rows_for(lengths, base=10)
    flat = np.array([v for r in rows for v in r], dtype=np.int64)
    ra = RaggedArray(flat.copy(), lengths)
    exp = [list(r) for r in rows]
    vk = case["value"]
    if "ragged_mask" in case:
        bits = case["ragged_mask"]
        mask = RaggedArray(np.array(bits, dtype=bool), lengths)
        k = sum(bits)
        value = 777 if vk == "scalar" else np.arange(900, 900 + k, dtype=np.int64)
        it = iter(range(900, 900 + k))
        p = 0
        for r in range(len(exp)):
            for c in range(len(exp[r])):
                if bits[p]:
                    exp[r][c] = 777 if vk == "scalar" else next(it)
                p += 1
        try:
            ra[mask] = value
        except Exception as e:
            return {"msg": f"ra[mask]={vk} lengths={lengths} mask={bits}: raised {type(e).__name__}: {e}", "sig": "raised:ragged-mask:" + vk}
        got = ra.tolist()
        if got != exp:
            return {"msg": f"ra[mask]={vk} lengths={lengths} mask={bits}: expected {exp}, got {got}", "sig": "wrong:ragged-mask:" + vk}
        return None
    rsel, csel = dec_index(case["row"]), dec_index(case["col"])
    try:
        kind, coords = addressed(rows, rsel, csel)
    except IndexError:
        return None            # not an index accepted for reading (C02 decides refusal)
    idx = rsel if csel is None else (rsel, csel)
    expect_raise = False
    if kind == "scalar":
        if vk != "scalar":
            return None
        value = 777
        exp[coords[0]][coords[1]] = 777
    elif kind == "flat":
        if vk == "scalar":
            value = 777
            for (r, c) in coords:
                exp[r][c] = 777
        elif vk == "flat":
            value = np.arange(900, 900 + len(coords), dtype=np.int64)
            for v, (r, c) in zip(value.tolist(), coords):
                exp[r][c] = v
        else:
            return None
    else:
        m = len(coords)
        if vk == "scalar":
            value = 777
            for row in coords:
                for (r, c) in row:
                    exp[r][c] = 777
        elif vk == "flat":
            tot = sum(len(row) for row in coords)
            value = np.arange(900, 900 + tot, dtype=np.int64)
            it = iter(value.tolist())
            for row in coords:
                for (r, c) in row:
                    exp[r][c] = next(it)
        elif vk == "column":
            if m <= 1:
                return None        # an (1,1) value is a scalar to numpy; covered by "scalar"
            value = np.arange(500, 500 + m, dtype=np.int64)[:, None]
            for k, row in enumerate(coords):
                for (r, c) in row:
                    exp[r][c] = 500 + k
        elif vk == "ragged":
            tot = sum(len(row) for row in coords)
            value = RaggedArray(np.arange(900, 900 + tot, dtype=np.int64), [len(row) for row in coords])
            it = iter(range(900, 900 + tot))
            for row in coords:
                for (r, c) in row:
                    exp[r][c] = next(it)
        else:
            ls = [len(row) for row in coords]
            if not ls:
                return None
            ls2 = list(ls)
            ls2[0] += 1
            value = RaggedArray(np.arange(900, 900 + sum(ls2), dtype=np.int64), ls2)
            expect_raise = True
    try:
        ra[idx] = value
        err = None
    except Exception as e:
        err = e
    sig = f"{_sel_sig(case['row'])},{_sel_sig(case['col'])}:{vk}"
    if expect_raise:
        if err is None:
            return {"msg": f"ra[{case['row']},{case['col']}] = ragged value with different row lengths was accepted "
                           f"(lengths {lengths})", "sig": "not-refused:" + sig}
        return None
    if err is not None:
        return {"msg": f"ra[{case['row']},{case['col']}] = {vk} on rows {rows}: raised {type(err).__name__}: {err}",
                "sig": f"raised:{type(err).__name__}:" + sig}
    got = ra.tolist()
    if got != exp or np.asarray(ra.lengths).tolist() != lengths:
        return {"msg": f"ra[{case['row']},{case['col']}] = {vk} on rows {rows}: expected {exp}, got {got}", "sig": "wrong:" + sig}
    return None


def _sel_sig(s):
    if s is None:
        return "none"
    if isinstance(s, dict):
        if "slice" in s:
            st = s["slice"][2]
            return "slice" + ("-" if st is not None and st < 0 else "+")
        return next(iter(s))
    return "int" + ("-" if s < 0 else "+")
