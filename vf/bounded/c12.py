"""C12 bounded stand-in: Counter.count over sequences of sample batches against
`initial + collections.Counter(all samples so far)` restricted to the keys.

A case is {"part", "dtype", "keys", "mod" (None | int), "init" (None = constructor default | int | per-key list),
           "batches": [[sample, ...], ...], "form": "list" | "typed"}
Every batch is one count() call ("list": a Python list, "typed": a numpy array of the key dtype).  After the last
call the counter is read back with counter[keys] (vector) and with one single-key lookup per key.

Order- and split-invariance are checked by construction: Part B enumerates EVERY sequence over the sample alphabet
and EVERY way to cut it into <= 3 consecutive batches (empty batches included); each is compared with the dict
oracle, which depends on the multiset of samples only.

Not checked (not promised): samples outside the key dtype's range (negative samples for unsigned keys ...),
float / non-integer initial values, the key set / contains (that is C11), the return value of count().
"""
import collections
import itertools
import numbers
import numpy as np
from .common import import_repo
from .c11 import (POOLS_Q, POOLS_T, MODS_Q, MODS_T, BIGMODS_Q, STRUCT_B_Q, STRUCT_B_T, RANGE, LIM, key_lists,
                  absent_candidates, eff_mod)

PROPERTY = "C12"
RULE = ("exhaustive union of two products. Part A (structure x designed batch lists): every key list of the per-dtype "
        "pool (as C11) x every modulus x every initial-value kind {default, 0, 3, per-key} x 12 batch lists (no call, "
        "empty batch, only non-keys [colliding with a key's bucket / empty bucket / large], non-keys then a key, every key "
        "once, heavy repetition, mixed, several calls with empty and key-less calls in between, typed-array form) + big "
        "moduli. Part B (order / split invariance): stated structures x every initial-value kind x EVERY sequence of length "
        "<= L over the alphabet {first key, last key, [middle key,] colliding non-key, empty-bucket non-key} x EVERY split "
        "into <= 3 consecutive batches incl. empty ones. Thorough: larger pools/moduli/L and a seeded random part. "
        "Non-trivial = a sample that is not a key, or two keys sharing a bucket, or more than one call, or a non-default "
        "initial value")

INITS = ["default", "zero", "scalar", "per", "perfloat", "perbig"]

BOUNDS = {
    "quick": {"key_pools": "as C11 quick", "moduli": MODS_Q, "big_moduli": BIGMODS_Q, "inits": INITS,
              "designed_batch_lists": 12, "split_structures": STRUCT_B_Q, "max_samples": 3, "max_batches": 3,
              "alphabet": "first key, last key, colliding non-key, empty-bucket non-key"},
    "thorough": {"key_pools": "as C11 thorough", "moduli": MODS_T, "big_moduli": BIGMODS_Q, "inits": INITS,
                 "designed_batch_lists": 12, "split_structures": STRUCT_B_T, "max_samples": 4,
                 "max_samples_first_2_structures": 5, "max_batches": 3,
                 "alphabet": "first, middle, last key, colliding non-key, empty-bucket non-key",
                 "random": "40000 random structures x random batch lists (<= 6 batches of <= 12 samples)"},
}


def init_value(kind, n):
    return {"default": None, "zero": 0, "scalar": 3, "per": [10 * (i + 1) for i in range(n)],
            "perfloat": [0.5 + i for i in range(n)],                 # pseudo-counts: the totals are initial + occurrences (2.5, ...)
            "perbig": [2 ** 62 + i for i in range(n)]}[kind]


def designed_batches(dt, keys, mod):
    ab = absent_candidates(keys, dt, mod)
    non = list(ab.values())
    k0, kl = keys[0], keys[-1]
    ac = ab.get("collide", non[0])
    ae = ab.get("empty", non[-1])
    out = [
        ("list", []),
        ("list", [[]]),
        ("list", [non]),
        ("list", [non, [k0]]),
        ("list", [list(keys)]),
        ("list", [[k0] * 5 + [kl] * 2]),
        ("list", [[kl, ac, k0, ae, kl, non[-1], kl]]),
        ("typed", [[kl, ac, k0, ae, kl, non[-1], kl]]),
        ("list", [[k0], [], [kl, kl], [ac], [ae, k0]]),
        ("list", [[ac] * 3 + [k0], [ae] * 2]),
        ("list", [(list(keys) * 3)[::-1]]),
        ("typed", [[], [kl], non]),
    ]
    return out


def splits(seq, max_batches):
    """every way to cut seq into 1..max_batches consecutive (possibly empty) batches, plus 'no call' for the empty seq"""
    L = len(seq)
    if L == 0:
        yield []
    for b in range(1, max_batches + 1):
        for cuts in itertools.combinations_with_replacement(range(L + 1), b - 1):
            pts = [0] + list(cuts) + [L]
            yield [list(seq[pts[i]:pts[i + 1]]) for i in range(b)]


def alphabet(dt, keys, mod, with_middle):
    ab = absent_candidates(keys, dt, mod)
    al = [keys[0]]
    if with_middle and len(keys) >= 3:
        al.append(keys[1])
    if len(keys) > 1:
        al.append(keys[-1])
    for cls in ("collide", "empty"):
        if cls in ab:
            al.append(ab[cls])
    if "collide" not in ab and "empty" not in ab:
        al.append(ab["big"])
    return al


def cases(tier, seed):
    quick = tier == "quick"
    pools = POOLS_Q if quick else POOLS_T
    mods = MODS_Q if quick else MODS_T
    # ---- Part A
    for dt, keys in key_lists(pools):
        for mod in mods:
            db = designed_batches(dt, keys, mod)
            for kind in INITS:
                for form, batches in db:
                    yield {"part": "A", "dtype": dt, "keys": keys, "mod": mod, "init": init_value(kind, len(keys)),
                           "batches": batches, "form": form}
    seen = set()
    for dt, keys in key_lists(pools):
        if (dt, len(keys)) in seen:
            continue
        seen.add((dt, len(keys)))
        for mod in BIGMODS_Q:
            for kind in INITS:
                for form, batches in designed_batches(dt, keys, mod):
                    yield {"part": "C", "dtype": dt, "keys": keys, "mod": mod, "init": init_value(kind, len(keys)),
                           "batches": batches, "form": form}
    # ---- Part B
    structs = STRUCT_B_Q if quick else STRUCT_B_T
    for si, (dt, keys, mod) in enumerate(structs):
        al = alphabet(dt, keys, mod, not quick)
        maxlen = 3 if quick else (5 if si < 2 else 4)
        for kind in INITS:
            init = init_value(kind, len(keys))
            for L in range(0, maxlen + 1):
                for seq in itertools.product(al, repeat=L):
                    for bs in splits(seq, 3):
                        yield {"part": "B", "dtype": dt, "keys": keys, "mod": mod, "init": init, "batches": bs,
                               "form": "list"}
    # ---- random part
    if not quick:
        rng = np.random.default_rng(seed)
        dts = list(POOLS_T)
        for _ in range(40000):
            dt = dts[int(rng.integers(0, len(dts)))]
            lo, hi = RANGE[dt]
            lo, hi = max(lo, -LIM), min(hi, LIM)
            n = int(rng.integers(1, 8))
            ks = set()
            while len(ks) < n:
                r = rng.random()
                if r < 0.5:
                    c = int(rng.integers(max(lo, -20), min(hi, 20) + 1))
                elif r < 0.8:
                    c = hi - int(rng.integers(0, 20))
                elif lo < 0:
                    c = lo + int(rng.integers(0, 20))
                else:
                    c = int(rng.integers(lo, hi, endpoint=True))
                ks.add(c)
            keys = [int(k) for k in rng.permutation(sorted(ks))]
            mod = None if rng.random() < 0.25 else int(rng.integers(1, 14))
            non = list(absent_candidates(keys, dt, mod).values())
            m = eff_mod(keys, mod)
            for k in keys:                       # more non-keys around the keys
                for c in (k + 1, k - 1, k + m, k - m):
                    if lo <= c <= hi and c not in ks:
                        non.append(c)
            batches = []
            for _b in range(int(rng.integers(0, 7))):
                size = int(rng.integers(0, 13))
                b = []
                for _s in range(size):
                    if rng.random() < 0.6:
                        b.append(keys[int(rng.integers(0, n))])
                    else:
                        b.append(non[int(rng.integers(0, len(non)))])
                batches.append(b)
            kind = INITS[int(rng.integers(0, len(INITS)))]
            yield {"part": "R", "dtype": dt, "keys": keys, "mod": mod, "init": init_value(kind, n), "batches": batches,
                   "form": "list" if rng.random() < 0.7 else "typed"}


def nontrivial(case):
    keys = case["keys"]
    ks = set(keys)
    m = eff_mod(keys, case["mod"])
    if any(s not in ks for b in case["batches"] for s in b):
        return True
    if len({k % m for k in keys}) < len(keys):
        return True
    return len(case["batches"]) > 1 or case["init"] is not None


# ---------------------------------------------------------------------------------------------

def _init_kind(init):
    if init is None:
        return "default"
    if isinstance(init, list):
        return "per-key"
    return "scalar0" if init == 0 else "scalar"


def _batch_class(batch, ks):
    if not batch:
        return "empty"
    hit = [s in ks for s in batch]
    return "keys-only" if all(hit) else ("nonkeys-only" if not any(hit) else "mixed")


def _violations(case):
    import_repo()
    from npstructures import Counter
    dt, keys, mod, init = case["dtype"], list(case["keys"]), case["mod"], case["init"]
    ks = set(keys)
    ik = _init_kind(init)
    karr = np.array(keys, dtype=dt)
    if init is None:
        ctx = f"Counter(np.array({keys},'{dt}'), mod={mod})"
    else:
        ctx = f"Counter(np.array({keys},'{dt}'), {init}, mod={mod})"
    try:
        if init is None:
            c = Counter(karr, mod=mod)
        elif isinstance(init, list):
            c = Counter(karr, np.array(init, dtype=np.float64 if any(isinstance(v, float) for v in init) else np.int64), mod=mod)
        else:
            c = Counter(karr, init, mod=mod)
    except Exception as e:
        yield {"msg": f"{ctx}: constructor raised {type(e).__name__}: {str(e)[:120]}",
               "sig": "raised:" + type(e).__name__ + ":init:" + ("u" if dt.startswith("u") else "i") + str(np.dtype(dt).itemsize * 8)}
        return
    D = {k: (0 if init is None else (init[i] if isinstance(init, list) else init)) for i, k in enumerate(keys)}
    seen = collections.Counter()
    hit_before = False
    classes = set()
    for bi, batch in enumerate(case["batches"]):
        arg = [int(s) for s in batch] if case["form"] == "list" else np.array(batch, dtype=dt)
        cls = _batch_class(batch, ks)
        classes.add(cls)
        try:
            c.count(arg)
        except Exception as e:
            state = "materialised" if (hit_before or ik == "per-key") else "scalar"
            yield {"msg": f"{ctx}: count call #{bi} of {case['batches']} ({case['form']}) raised {type(e).__name__}: {str(e)[:160]}",
                   "sig": f"raised:{type(e).__name__}:count:{ik}:{state}:{cls}"}
            return
        seen.update(batch)
        hit_before = hit_before or any(s in ks for s in batch)
    exp = {k: D[k] + seen[k] for k in keys}
    cl = "no-call" if not case["batches"] else ("+".join(sorted(classes)) if len(classes) == 1 else
                                               ("multi-call" if len(case["batches"]) > 1 else "mixed"))
    c2 = f"{ctx} after count x {case['batches']} ({case['form']})"
    try:
        a = np.asarray(c[karr])
        got = a.ravel().tolist()
        if a.shape != (len(keys),) or got != [exp[k] for k in keys]:
            yield {"msg": f"{c2}: counter[{keys}] expected {[exp[k] for k in keys]}, got {got}",
                   "sig": f"wrong:totals:{ik}:{cl}"}
    except Exception as e:
        yield {"msg": f"{c2}: counter[{keys}] expected {[exp[k] for k in keys]}, raised {type(e).__name__}: {str(e)[:120]}",
               "sig": f"raised:{type(e).__name__}:readback:{ik}:{cl}"}
    for k in keys:
        try:
            got = np.asarray(c[int(k)]).ravel().tolist()
            if got != [exp[k]]:
                yield {"msg": f"{c2}: counter[{k}] expected {exp[k]}, got {got}", "sig": f"wrong:totals:{ik}:{cl}"}
        except Exception as e:
            yield {"msg": f"{c2}: counter[{k}] expected {exp[k]}, raised {type(e).__name__}: {str(e)[:120]}",
                   "sig": f"raised:{type(e).__name__}:readback:{ik}:{cl}"}


def check(case):
    for v in _violations(case):
        return v
    return None


def check_all(case):
    return list(_violations(case))
